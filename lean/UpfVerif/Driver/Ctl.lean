import UpfVerif.Driver.Util
import UpfVerif.Model.Core
/-
Driver for the S-ctl stream: replays the harness's events through `Core.step`, with the environment built
from what the implementation observed (driver answers, iteration order), and compares outputs and state dumps.
Executes definitions; proves nothing.
-/
namespace UpfVerif.Driver.Ctl
open UpfVerif.Core UpfVerif.Driver

def kvs (toks : List String) : List (String × String) :=
  toks.filterMap fun t =>
    match splitOn1 t '=' with
    | k :: v :: rest => some (k, String.intercalate "=" (v :: rest))
    | _ => none

def look (m : List (String × String)) (k : String) : Option String := (m.find? (·.1 == k)).map (·.2)
def lookD (m : List (String × String)) (k : String) (d : String) : String := (look m k).getD d

def natD (s : String) : Nat := s.toNat?.getD 0
def hexD (s : String) : Nat := (parseHexNat s).getD 0

def parseId (s : String) : Option Nat := if s == "-" then none else s.toNat?

def listOf (s : String) : List String := if s == "_" || s == "" then [] else splitOn1 s ','

def parseSimple (s : String) : List RuleIE := (listOf s).map fun t => { id := parseId t }

def parseUrrRules (s : String) : List RuleIE :=
  (listOf s).map fun t =>
    match splitOn1 t '/' with
    | [i, m, n] =>
      { id := parseId i,
        meth := if m == "-" then none else
          match m.toList with
          | [d, v] => some (d == '1', v == '1')
          | _ => none,
        mnop := if n == "-" then none else some (n == "1") }
    | i :: _ => { id := parseId i }
    | [] => { id := none }

def parsePdrRules (s : String) : List RuleIE :=
  (listOf s).map fun t =>
    match splitOn1 t '/' with
    | i :: us :: ip :: _ =>      -- (a fourth field `L`: the PDR ID child comes last in the IE — no difference to what the IE says)
      { id := parseId i,
        urrs := if us == "" then [] else (splitOn1 us '+').map natD,
        ueip := if ip == "" then none else parseHexBytes ip }
    | i :: _ => { id := parseId i }
    | [] => { id := none }

def parseNode (s : String) : Option NodeId :=
  if s == "-" then none
  else if s.startsWith "4:" then some (.v4 (s.drop 2).toString)
  else if s.startsWith "6:" then some (.v6 (s.drop 2).toString)
  else if s.startsWith "f:" then some (.fqdn (s.drop 2).toString)
  else some (.fqdn s)

def parseItems (s : String) : List RepItem :=
  if s == "_" || s == "" then [] else
  (splitOn1 s ';').filterMap fun t =>
    match splitOn1 t ':' with
    | ["u", u, tr, ms] => some (.usar { urr := natD u, trig := BitVec.ofNat 32 (hexD tr), meas := (splitOn1 ms '+').map natD })
    | ["d", p, a, pk] => some (.dldr (natD p) (BitVec.ofNat 16 (hexD a)) ((parseDash pk).getD []))
    | _ => none

def parseEvent (toks : List String) : Option Event :=
  match toks with
  | "recv" :: rest =>
    let m := kvs rest
    let peer := "p" ++ lookD m "p" "0"
    let seq := BitVec.ofNat 24 (natD (lookD m "seq" "0"))
    match lookD m "kind" "" with
    | "hb" => some (.request peer seq .heartbeat)
    | "assoc" => some (.request peer seq (.assoc (parseNode (lookD m "node" "-"))))
    | "est" =>
      let cp := lookD m "cp" "-"
      some (.request peer seq (.est {
        nodeID := parseNode (lookD m "node" "-"),
        cpSeid := if cp == "-" then none else some (BitVec.ofNat 64 (hexD cp)),
        far := parseSimple (lookD m "far" "_"), qer := parseSimple (lookD m "qer" "_"),
        urr := parseUrrRules (lookD m "urr" "_"), bar := (parseSimple (lookD m "bar" "_")).head?,
        pdr := parsePdrRules (lookD m "pdr" "_") }))
    | "mod" =>
      some (.request peer seq (.mod {
        seid := BitVec.ofNat 64 (hexD (lookD m "seid" "0")),
        nodeID := parseNode (lookD m "node" "-"),
        cfar := parseSimple (lookD m "cfar" "_"), cqer := parseSimple (lookD m "cqer" "_"),
        curr := parseUrrRules (lookD m "curr" "_"), cbar := (parseSimple (lookD m "cbar" "_")).head?,
        cpdr := parsePdrRules (lookD m "cpdr" "_"),
        rfar := parseSimple (lookD m "rfar" "_"), rqer := parseSimple (lookD m "rqer" "_"),
        rurr := parseSimple (lookD m "rurr" "_"), rbar := (parseSimple (lookD m "rbar" "_")).head?,
        rpdr := parsePdrRules (lookD m "rpdr" "_"),
        ufar := parseSimple (lookD m "ufar" "_"), uqer := parseSimple (lookD m "uqer" "_"),
        uurr := parseUrrRules (lookD m "uurr" "_"), ubar := (parseSimple (lookD m "ubar" "_")).head?,
        updr := parsePdrRules (lookD m "updr" "_"), qurr := parseSimple (lookD m "qurr" "_") }))
    | "del" => some (.request peer seq (.del (BitVec.ofNat 64 (hexD (lookD m "seid" "0")))))
    | "other" => some (.request peer seq .other)
    | "srrsp" => some (.srResponse peer seq (BitVec.ofNat 64 (hexD (lookD m "seid" "0"))))
    | "orsp" => some (.otherResponse peer seq)
    | "junk" => some .ignored
    | _ => none
  | "report" :: rest =>
    let m := kvs rest
    some (.report (BitVec.ofNat 64 (hexD (lookD m "seid" "0"))) (parseItems (lookD m "items" "_")))
  | "tmo" :: rest =>
    let m := kvs rest
    let peer := "p" ++ lookD m "p" "0"
    let seq := natD (lookD m "seq" "0")
    if lookD m "k" "" == "tx" then some (.txTimeout peer (BitVec.ofNat 24 seq)) else some (.rxTimeout peer (BitVec.ofNat 24 seq))
  | _ => none

/-! ### rendering (must match ctl_exec.go) -/

def hexN (n : Nat) : String :=
  if n == 0 then "0" else
  let rec go (fuel n : Nat) (acc : List Char) : List Char :=
    match fuel with
    | 0 => acc
    | f + 1 => if n == 0 then acc else go f (n / 16) (hexDigit (n % 16) :: acc)
  String.ofList (go 64 n [])

def opStr : Op → String
  | .create => "create" | .update => "update" | .remove => "remove" | .query => "query"
def kindStr : Kind → String
  | .pdr => "pdr" | .far => "far" | .qer => "qer" | .urr => "urr" | .bar => "bar"
def parseOp : String → Option Op
  | "create" => some .create | "update" => some .update | "remove" => some .remove | "query" => some .query | _ => none
def parseKind : String → Option Kind
  | "pdr" => some .pdr | "far" => some .far | "qer" => some .qer | "urr" => some .urr | "bar" => some .bar | _ => none

def joinOr (sep : String) (xs : List String) : String := if xs.isEmpty then "_" else String.intercalate sep xs

def reportsStr (rs : List Report) : String :=
  joinOr ";" (rs.map fun r => s!"u:{r.urr}:{hexN r.trig.toNat}:" ++ String.intercalate "+" (r.meas.map toString))

def parseReports (s : String) : List Report :=
  (parseItems s).filterMap fun
    | .usar r => some r
    | _ => none

def hexPad (digits n : Nat) : String :=
  let rec go : Nat → Nat → List Char → List Char
    | 0, _, acc => acc
    | k+1, n, acc => go k (n / 16) (hexDigit (n % 16) :: acc)
  String.ofList (go digits n [])

def usarStr (u : UsarIE) : String :=
  let t := u.trig.toNat
  -- three little-endian octets of the flag word, as hex
  let trig := hexPad 2 (t % 256) ++ hexPad 2 (t / 256 % 256) ++ hexPad 2 (t / 65536 % 256)
  let times := match u.times with
    | some (a, b) => s!"{a}+{b}"
    | none => "-"
  let vol := match u.vol with
    | some (f, cs) =>
      -- go-pfcp zeroes counters whose flag is not set
      let shown := (cs.zipIdx).map fun (c, i) => if f.getLsbD i then c else 0
      hexPad 2 f.toNat ++ ":" ++ String.intercalate "+" (shown.map toString)
    | none => "-"
  let dur := match u.dur with
    | some d => toString d
    | none => "-"
  s!"{u.urr}/{u.seqn}/{trig}/{times}/{vol}/{dur}"

def usarsStr (us : List UsarIE) : String := joinOr ";" (us.map usarStr)

def optNat (o : Option Nat) : String := match o with
  | some n => toString n
  | none => "-"

def msgStr (m : Msg) : String :=
  let seq := m.seq.toNat
  let seid := hexN (m.seid.getD 0).toNat
  match m.kind with
  | .hbRsp => s!"hbrsp seq={seq} ts=same"
  | .assocRsp => s!"assocrsp seq={seq} node=1 cause={optNat m.cause} ts=same"
  | .estRsp =>
    let fseid := match m.fseid with
      | some f => hexN f.toNat ++ "/ipok"
      | none => "-"
    let created := joinOr "," (m.created.map fun (id, ip) => s!"{id}/{Bytes.toHex ip}")
    s!"estrsp seq={seq} seid={seid} node=1 cause={optNat m.cause} fseid={fseid} created={created}"
  | .modRsp => s!"modrsp seq={seq} seid={seid} cause={optNat m.cause} usar={usarsStr m.usars}"
  | .delRsp => s!"delrsp seq={seq} seid={seid} cause={optNat m.cause} rt={optNat m.rtype} usar={usarsStr m.usars}"
  | .srReq => s!"srreq seq={seq} seid={seid} rt={optNat m.rtype} dldr={optNat m.dldr} usar={usarsStr m.usars}"

def peerNum (addr : String) : Nat := natD (addr.drop 1).toString

def outDpStr (c : DpCall) (a : DpAns) : String :=
  s!"dp {hexN c.seid.toNat} {opStr c.op} {kindStr c.kind} {c.id} {if a.ok then "ok" else "err"} {reportsStr a.reports}"

/-- canonical order of the outputs of one event: driver calls in order, then datagrams grouped by peer -/
def renderOuts (outs : List Out) : List String :=
  let dps := outs.filterMap fun
    | .dp c a => some (outDpStr c a)
    | _ => none
  -- (peer 7 is the node whose address cannot be reached from the UPF's socket: what is sent there fails at `sendto` and is seen
  --  by nobody — the request is outstanding all the same)
  let sends := (outs.filterMap fun
    | .send to m => some (peerNum to, s!"send p={peerNum to} {msgStr m}")
    | _ => none).filter (·.1 != 7)
  let peers := (sends.map (·.1)).eraseDups.mergeSort (· ≤ ·)
  dps ++ (peers.map fun p => (sends.filter (·.1 == p)).map (·.2)).flatten

def sortStr (xs : List String) : List String := xs.mergeSort (fun a b => a < b || a == b)
def sortNat (xs : List Nat) : List Nat := xs.mergeSort (· ≤ ·)

def showNode : NodeId → String
  | .v4 p => "4:" ++ p
  | .v6 t => t
  | .fqdn t => t

def b2s (b : Bool) : String := if b then "1" else "0"

def sessStr (st : State) (s : Sess) : String :=
  let nid := showNode (st.nodes.getD s.rnode default).id ++ "@" ++ (st.nodes.getD s.rnode default).addr
  let pd := joinOr "," ((s.pdrs.mergeSort (fun a b => a.1 ≤ b.1)).map fun (id, us) =>
    s!"{id}/" ++ String.intercalate "+" ((sortNat us).map toString))
  let ids (l : List Nat) := joinOr "," ((sortNat l).map toString)
  let ur := joinOr "," ((s.urrs.mergeSort (fun a b => a.1 ≤ b.1)).map fun (id, u) =>
    s!"{id}/{u.seqn}/{u.refPdrNum}/{b2s u.removed}/{b2s u.durat}/{b2s u.volum}/{b2s u.mnop}")
  let qs := joinOr "," ((s.q.mergeSort (fun a b => a.1 ≤ b.1)).map fun (id, ps) => s!"{id}/{ps.length}")
  s!"{hexN s.localID.toNat};{hexN s.remoteID.toNat};{nid};P={pd};F={ids s.fars};Q={ids s.qers};U={ur};B={ids s.bars};K={qs}"

def dumpStr (st : State) : String :=
  let free := joinOr "," (st.lnode.free.map fun x => hexN x.toNat)
  let sess := st.lnode.sess.filterMap id |>.map (sessStr st)
  let sj := if sess.isEmpty then "_" else String.intercalate "|" sess
  let nodes := joinOr "," (sortStr (st.rnodes.map fun (k, h) =>
    let n := st.nodes.getD h default
    s!"{showNode k}>{showNode n.id}>{n.addr}#" ++ String.intercalate "+" ((sortNat (n.sess.map (·.toNat))).map hexN)))
  let rx := joinOr "," (sortStr (st.rx.map fun ((a, q), _) => s!"{a}-{q.toNat}"))
  let tx := joinOr "," (sortStr (st.tx.map fun ((a, q), t) => s!"{a}-{q.toNat}/{t.count}/a"))
  s!"free={free} slots={st.lnode.sess.length} sess={sj} nodes={nodes} rx={rx} tx={tx} txseq={hexN st.txSeq.toNat} rxu=_"

/-! ### reference data plane, maintained from the observed calls (Spec.DataPlane) -/

abbrev DP := List (Nat × Kind × Nat)

def dpApply (dp : DP) (c : DpCall) (a : DpAns) : DP :=
  let key := (c.seid.toNat, c.kind, c.id)
  if !a.ok then dp else
  match c.op with
  | .create => if dp.contains key then dp else dp ++ [key]
  | .remove => dp.filter (· != key)
  | _ => dp

def dpStr (dp : DP) : String :=
  joinOr "," (sortStr (dp.map fun (s, k, i) => s!"{hexN s}/{kindStr k}/{i}"))

/-! ### the per-stream state machine of the driver -/

structure Pend where
  ev     : Option Event := none
  evLine : String := ""
  obsDp  : List (DpCall × DpAns) := []
  obs    : List String := []       -- observed O lines (without the leading "O "), canonical order as printed
  fault  : Option String := none
  dump   : Option String := none

structure DrvState where
  st     : State := {}
  dp     : DP := []
  pend   : Pend := {}
  caseNo : Nat := 0
  caseLine : String := ""
  evNo   : Nat := 0
  history : List String := []      -- E lines of the current case (for replays), newest first
  dead   : Bool := false           -- the case is over (fault or mismatch): skip until the next C

structure Report' where
  diffs : List String := []
  fails : List String := []
  checked : Nat := 0

def parseObsDp (toks : List String) : Option (DpCall × DpAns) :=
  match toks with
  | [seid, op, kind, id, res, reps] => do
    let o ← parseOp op
    let k ← parseKind kind
    some ({ seid := BitVec.ofNat 64 (hexD seid), op := o, kind := k, id := natD id },
          { ok := res == "ok", reports := parseReports reps })
  | _ => none

def freeOrder (dump : String) : List Seid :=
  let m := kvs (wordsOf dump)
  (listOf (lookD m "free" "_")).map fun h => BitVec.ofNat 64 (hexD h)
where wordsOf (s : String) : List String := (s.split (· == ' ')).toList.map (·.toString) |>.filter (· ≠ "")

end UpfVerif.Driver.Ctl

namespace UpfVerif.Driver.Ctl
open UpfVerif.Core UpfVerif.Driver

def wordsOf (s : String) : List String := (s.split (· == ' ')).toList.map (·.toString) |>.filter (· ≠ "")

/-- start of a case: `C <n> maxretrans=<n> txseq=<hex> …` -/
def startCase (toks : List String) (line : String) : DrvState :=
  let m := kvs toks
  let st : State := { cfg := { maxRetrans := natD (lookD m "maxretrans" "3") },
                      txSeq := BitVec.ofNat 32 (hexD (lookD m "txseq" "0")) }
  { st := st, caseNo := natD (toks.headD "0"), caseLine := line }

/-- end of an event (`X`): run the model on the event with the environment the implementation observed,
    compare outputs and dumps. Returns the new driver state and the DIFF lines. -/
def finishEvent (d : DrvState) : DrvState × List String :=
  let p := d.pend
  let d0 := { d with pend := {}, evNo := d.evNo + 1 }
  if d.dead then (d0, []) else
  match p.ev with
  | none => (d0, [])
  | some ev =>
    let ctxt := s!"case={d.caseNo} ev={d.evNo}"
    let hist := String.intercalate " ;; " (d.caseLine :: d.history.reverse)
    match p.fault with
    | some f =>
      -- the model of the repaired code has no fault: any fault of the implementation is a difference
      ({ d0 with dead := true }, [s!"DIFF ctl {ctxt} model=nofault impl=fault:{f} :: {hist}"])
    | none =>
      let env : Env := { pending := p.obsDp, sessOrder := match p.dump with
        | some dl => freeOrder dl
        | none => [] }
      let (st', outs) := step d.st ev env
      let mo := renderOuts outs
      let dp' := p.obsDp.foldl (fun dp (c, a) => dpApply dp c a) d.dp
      let diffs1 :=
        if mo == p.obs then [] else
        let firstDiff := ((mo.zip p.obs).find? fun (a, b) => a != b)
        let (a, b) := firstDiff.getD (mo.getD p.obs.length "(nothing)", p.obs.getD mo.length "(nothing)")
        [s!"DIFF ctl.out {ctxt} model={a.replace " " "~"} impl={b.replace " " "~"} :: {hist}"]
      let diffs2 := match p.dump with
        | none => [s!"DIFF ctl.dump {ctxt} model=dump impl=nodump :: {hist}"]
        | some dl =>
          let md := dumpStr st' ++ " dp=" ++ dpStr dp'
          if md == dl then [] else
          -- name the first field that differs
          let ma := wordsOf md
          let ia := wordsOf dl
          let fd := ((ma.zip ia).find? fun (a, b) => a != b).getD ("?", "?")
          [s!"DIFF ctl.dump {ctxt} model={fd.1} impl={fd.2} :: {hist}"]
      let diffs := diffs1 ++ diffs2
      ({ d0 with st := st', dp := dp', dead := !diffs.isEmpty }, diffs)

/-- feed one line of the ctl stream -/
def feed (d : DrvState) (line : String) : DrvState × List String :=
  match wordsOf line with
  | "C" :: toks => (startCase toks line, [])
  | "E" :: toks =>
    ({ d with pend := { ev := parseEvent toks, evLine := line }, history := line :: d.history },
     if (parseEvent toks).isNone then [s!"BADLINE 0 :: {line}"] else [])
  | "O" :: "dp" :: toks =>
    match parseObsDp toks with
    | some ca => ({ d with pend := { d.pend with obsDp := d.pend.obsDp ++ [ca], obs := d.pend.obs ++ [String.intercalate " " ("dp" :: toks)] } }, [])
    | none => (d, [s!"BADLINE 0 :: {line}"])
  | "O" :: "send" :: toks =>
    ({ d with pend := { d.pend with obs := d.pend.obs ++ [String.intercalate " " ("send" :: toks)] } }, [])
  | "O" :: "fault" :: toks =>
    ({ d with pend := { d.pend with fault := some (String.intercalate " " toks) } }, [])
  | "D" :: toks => ({ d with pend := { d.pend with dump := some (String.intercalate " " toks) } }, [])
  | "X" :: _ => finishEvent d
  | "Z" :: _ => (d, [])
  | _ => (d, [s!"BADLINE 0 :: {line}"])

end UpfVerif.Driver.Ctl

namespace UpfVerif.Driver.Ctl
open UpfVerif.Core UpfVerif.Driver

/-- stateful evaluator of the direct table stream (C04): the model is `Core.LNode`; the abstract table
    `SEID ⇀ control-plane SEID` is kept beside it as the specification the implementation is judged by -/
structure TblState where
  n : LNode := {}
  spec : List (Nat × Nat) := []     -- live: UP SEID ↦ CP SEID, as issued
  everIssued : List Nat := []

def evalTbl (t : TblState) (fn : String) (args : List String) (impl : String) : Option (TblState × Verdict) :=
  match fn, args with
  | "tbl.reset", [] => some ({}, { model := "ok" })
  | "tbl.new", [cp] =>
    let (n', s) := t.n.newSess 0 (BitVec.ofNat 64 (hexD cp))
    let up := s.localID.toNat
    let implUp := hexD impl
    let fails :=
      (if implUp == 0 then ["C04 issued UP SEID is zero"] else []) ++
      (if t.spec.any (·.1 == implUp) then ["C04 issued UP SEID " ++ impl ++ " is held by another live session"] else [])
    some ({ n := n', spec := t.spec ++ [(up, hexD cp)], everIssued := up :: t.everIssued }, { model := hexN up, propFails := fails })
  | "tbl.lookup", [x] =>
    let xv := hexD x
    let model := match t.n.lookup (BitVec.ofNat 64 xv) with
      | some s => hexN s.localID.toNat ++ "/" ++ hexN s.remoteID.toNat
      | none => "none"
    let want := match t.spec.find? (·.1 == xv) with
      | some (u, c) => hexN u ++ "/" ++ hexN c
      | none => "none"
    some (t, { model, propFails := if impl == want then [] else
      [s!"C04 lookup of SEID {x} must answer {want} (abstract table), implementation answered {impl}"] })
  | "tbl.delete", [x] =>
    let xv := hexD x
    let live := t.spec.any (·.1 == xv)
    let n' : LNode := if live then { sess := t.n.sess.set (xv - 1) none, free := t.n.free ++ [BitVec.ofNat 64 xv] } else t.n
    let want := if live then "ok" else "none"
    some ({ t with n := n', spec := t.spec.filter (·.1 != xv) }, { model := want, propFails := if impl == want then [] else
      [s!"C04 delete of SEID {x} must answer {want}, implementation answered {impl}"] })
  | "tbl.dump", [] =>
    let model := s!"slots={t.n.sess.length} free=" ++ joinOr "," (t.n.free.map fun f => hexN f.toNat)
    some (t, { model })
  | _, _ => none

end UpfVerif.Driver.Ctl
