import UpfVerif.Driver.Util
import UpfVerif.Model.Xlate
import UpfVerif.Spec.Arrange
import UpfVerif.Lemmas.Netlink
/- driver for the S-drv stream: parses child tokens, runs M-Xlate, renders the netlink requests -/
namespace UpfVerif.Driver.Drv
open UpfVerif UpfVerif.Driver UpfVerif.Netlink UpfVerif.Xlate UpfVerif.Arrange UpfVerif.Rules UpfVerif.Gtp5gRead

def link : Nat := 7
def family : String := "1f"

def natHex (n : Nat) : String := String.mk (Nat.toDigits 16 n)

def reqShow (r : Req) : String :=
  s!"{r.cmd}/{family}/{natHex r.flags}/{showDash (encList r.attrs)}"

def reqsShow (rs : List Req) : String :=
  if rs.isEmpty then "_" else String.intercalate ";" (rs.map reqShow)

def resShow (r : Res) : String := (if r.1 then "ok " else "err ") ++ reqsShow r.2

/-- `name:value` → (name, value); bare `name` → (name, "") -/
def cutColon (t : String) : String × String :=
  match splitOn1 t ':' with
  | [] => ("", "")
  | n :: rest => (n, String.intercalate ":" rest)

def slashes (v : String) : List String := splitOn1 v '/'

def optNat (s : String) : Option (Option Nat) := if s == "-" then some none else s.toNat?.map some

def parsePdiChild (t : String) : Option PdiChild :=
  let (n, v) := cutColon t
  match n with
  | "srcif" => v.toNat?.map .srcif
  | "fteid" => match slashes v with
    | [a, b] => do pure (.fteid (← parseHexNat a) (← parseHexBytes b))
    | _ => none
  | "ueip" => (parseHexBytes v).map .ueip
  | "sdf" => match slashes v with
    | [a, b] => do
      let bs ← parseDash a
      pure (.sdf (bs.map fun x => Char.ofNat x.toNat) (← optNat b))
    | _ => none
  | "netinst" => some .netinst
  | "appid" => some .appid
  | _ => none

/-- inside of `name(…)` -/
def inner (t : String) (name : String) : Option String :=
  if t.startsWith (name ++ "(") && t.endsWith ")" then
    some ((t.drop (name.length + 1)).dropEnd 1).toString
  else none

def semis (s : String) : List String := if s.isEmpty then [] else splitOn1 s ';'

def parsePdrChild (t : String) : Option PdrChild :=
  match inner t "pdi" with
  | some body => ((semis body).mapM parsePdiChild).map .pdi
  | none =>
    let (n, v) := cutColon t
    match n with
    | "pdrid" => v.toNat?.map .pdrid
    | "prec" => v.toNat?.map .prec
    | "ohr" => v.toNat?.map .ohr
    | "farid" => v.toNat?.map .farid
    | "qerid" => v.toNat?.map .qerid
    | "urrid" => v.toNat?.map .urrid
    | _ => none

def parseFpChild (t : String) : Option FpChild :=
  let (n, v) := cutColon t
  match n with
  | "dstif" => v.toNat?.map .dstif
  | "netinst" => some .netinst
  | "ohc" => match slashes v with
    | [d, te, ip, p] => do pure (.ohc (← parseHexNat d) (← parseHexNat te) (← parseHexBytes ip) (← p.toNat?))
    | _ => none
  | "ohctag" => (parseDash v).map .ohctag
  | "fpol" => (parseDash v).map .fpol
  | "smreq" => v.toNat?.map .smreq
  | _ => none

def parseFarChild (t : String) : Option FarChild :=
  match (inner t "ufp").orElse (fun _ => inner t "fp") with
  | some body => ((semis body).mapM parseFpChild).map .fp
  | none =>
    let (n, v) := cutColon t
    match n with
    | "farid" => v.toNat?.map .farid
    | "aa" => (parseDash v).map .aa
    | "barid" => v.toNat?.map .barid
    | _ => none

def two (v : String) (f : Nat → Nat → α) : Option α :=
  match slashes v with
  | [a, b] => do pure (f (← a.toNat?) (← b.toNat?))
  | _ => none

def parseQerChild (t : String) : Option QerChild :=
  let (n, v) := cutColon t
  match n with
  | "qerid" => v.toNat?.map .qerid
  | "corr" => v.toNat?.map .corr
  | "gate" => v.toNat?.map .gate
  | "mbr" => two v .mbr
  | "gbr" => two v .gbr
  | "qfi" => v.toNat?.map .qfi
  | "rqi" => v.toNat?.map .rqi
  | "ppi" => v.toNat?.map .ppi
  | _ => none

def vol (v : String) (f : Nat → Nat → Nat → Nat → UrrChild) : Option UrrChild :=
  match slashes v with
  | [fl, a, b, c] => do pure (f (← parseHexNat fl) (← a.toNat?) (← b.toNat?) (← c.toNat?))
  | _ => none

def parseUrrChild (t : String) : Option UrrChild :=
  let (n, v) := cutColon t
  match n with
  | "urrid" => v.toNat?.map .urrid
  | "mm" => v.toNat?.map .mm
  | "rt" => (parseDash v).map .rt
  | "mp" => v.toNat?.map .mp
  | "mi" => v.toNat?.map .mi
  | "vth" => vol v .vth
  | "vqu" => vol v .vqu
  | _ => none

def parseBarChild (t : String) : Option BarChild :=
  let (n, v) := cutColon t
  match n with
  | "barid" => v.toNat?.map .barid
  | "ddnd" => v.toNat?.map .ddnd
  | "sbpc" => v.toNat?.map .sbpc
  | _ => none

def perioShow : Option (Nat × Nat × Nat) → String
  | none => "_"
  | some (seid, urr, sec) => s!"{sec}:{natHex seid}/{urr}"

/-- every SDF flow description of the PDR is inside the domain M-FlowDesc models -/
def pdrInDomain (cs : List PdrChild) : Bool :=
  cs.all fun c => match c with
    | .pdi ps => ps.all fun p => match p with
      | .sdf fd _ => FlowDesc.inDomain fd
      | _ => true
    | _ => true

/-! ### property predicates on the implementation's own request bytes (C02, C03) -/

/-- the implementation's result field: `<ok|err> <req>;<req>… [perio=…]` → (ok, [(cmd, flags, attribute bytes)], perio) -/
def parseImpl (impl : String) : Option (Bool × List (Nat × Nat × Bytes) × String) := do
  let ws := (impl.split (· == ' ')).toList.map (·.toString) |>.filter (· ≠ "")
  let (okS, reqS, rest) ← match ws with
    | a :: b :: rest => some (a, b, rest)
    | _ => none
  let perio := match rest.find? (·.startsWith "perio=") with
    | some p => (p.drop 6).toString
    | none => ""
  let reqs ← if reqS == "_" then some [] else
    (splitOn1 reqS ';').mapM fun r => match splitOn1 r '/' with
      | [c, _, fl, hex] => do pure (← c.toNat?, ← parseHexNat fl, ← parseDash hex)
      | _ => none
  pure (okS == "ok", reqs, perio)

/-- the rule request among the implementation's requests: the last one carrying command `cmd` -/
def ruleReq (reqs : List (Nat × Nat × Bytes)) (cmd : Nat) : Option Bytes :=
  ((reqs.filter fun r => r.1 == cmd).getLast?).map fun r => r.2.2

def cmpView {α : Type} [DecidableEq α] [Repr α] (prop what : String) (got : Option α) (want : α) : List String :=
  match got with
  | none => [s!"{prop} {what}: the request bytes do not decode as a netlink attribute tree"]
  | some g => if g = want then [] else
      [s!"{prop} {what}: the rule read back from the netlink request differs from the IE's content: got {(reprStr g).replace "\n" " "} want {(reprStr want).replace "\n" " "}"]

def checkRule {σ α : Type} [DecidableEq α] [Repr α] (prop what : String) (impl : String) (cmd : Nat)
    (spec : Option σ) (wf : σ → Bool) (read : List Attr → α) (expect : σ → α) : List String :=
  match spec with
  | none => []                 -- not an arrangement of any content: outside the statement
  | some p =>
    if !wf p then [] else
    match parseImpl impl with
    | none => [s!"{prop} {what}: unparsable implementation result"]
    | some (ok, reqs, _) =>
      if !ok then [s!"{prop} {what}: a well-formed IE was rejected by the driver"] else
      match ruleReq reqs cmd with
      | none => [s!"{prop} {what}: no rule request reached the data plane"]
      | some b => cmpView prop what ((decodeTree b).map read) (expect p)

/-- GET_FAR look-ups of an Update FAR must address the FAR the IE names (order independence, C02) -/
def checkFarGets (impl : String) (seid : Nat) (p : Option FarSpec) : List String :=
  match p, parseImpl impl with
  | some p, some (_, reqs, _) =>
    let gets := reqs.filter fun r => r.1 == Gen.gtp5gnl.CMD_GET_FAR
    let bad := gets.filter fun r =>
      match decodeTree r.2.2 with
      | some as => !((leaf1 as A.farId).map rd32 == some p.id && (leaf1 as A.farSeid).map rd64 == some seid)
      | none => true
    if bad.isEmpty then [] else
      [s!"C02 update-far: the look-up made for the Apply Action does not address FAR {p.id} of this session (child order dependence) sig=updFarOrder"]
  | _, _ => []

/-- periodic registration demanded by C03 for this URR IE, rendered like the harness's dump -/
def wantPerio (seid : Nat) (p : UrrSpec) : Option String :=
  if p.periodic then
    match p.period with
    | some sec => if sec == 0 then none else some s!"{sec}:{natHex seid}/{p.id}"
    | none => none
  else some "_"

def checkPerio (op : String) (impl : String) (seid : Nat) (spec : Option UrrSpec) : List String :=
  match spec with
  | none => []
  | some p =>
    if !UrrSpec.wfb p then [] else
    match parseImpl impl, wantPerio seid p with
    | some (true, _, got), some want =>
      if got == want then [] else
        let sig := if op == "update" then " sig=updUrrPerio" else ""
        [s!"C03 {op}-urr: periodic registration is '{got}', the IE's triggers and period demand '{want}'{sig}"]
    | _, _ => []

/-- `T drv.<kind>.<op> <seid> tokens… = <res> <reqs> [perio=…]` -/
def eval (fn : String) (args : List String) (impl : String) : Option Verdict := do
  let (seidS, toks) ← match args with
    | s :: t => some (s, t)
    | [] => none
  let seid ← parseHexNat seidS
  match fn with
  | "drv.pdr.create" | "drv.pdr.update" =>
    let cs ← toks.mapM parsePdrChild
    if !pdrInDomain cs then pure { model := impl } else
    let r := if fn == "drv.pdr.create" then createPDR link seid cs else updatePDR link seid cs
    pure { model := resShow (true, [r]),
           propFails := checkRule "C02" fn impl Cmd.addPdr (specPdr cs) PdrSpec.wfb readPdr (expectPdr link seid) }
  | "drv.far.create" | "drv.far.update" =>
    let cs ← toks.mapM parseFarChild
    let r := if fn == "drv.far.create" then createFAR link seid cs else updateFAR link seid cs
    pure { model := resShow r,
           propFails := checkRule "C02" fn impl Cmd.addFar (specFar cs) FarSpec.wfb readFar (expectFar link seid)
                        ++ (if (specFar cs).any FarSpec.wfb then checkFarGets impl seid (specFar cs) else []) }
  | "drv.qer.create" | "drv.qer.update" =>
    let cs ← toks.mapM parseQerChild
    pure { model := resShow (true, [qerReq link seid (if fn == "drv.qer.create" then flCreate else flUpdate) cs]),
           propFails := checkRule "C03" fn impl Cmd.addQer (specQer cs) QerSpec.wfb readQer (expectQer link seid) }
  | "drv.urr.create" | "drv.urr.update" =>
    let cs ← toks.mapM parseUrrChild
    let (r, p) := if fn == "drv.urr.create" then createURR link seid cs else updateURR link seid cs
    let create := fn == "drv.urr.create"
    let spec := (specUrr cs).filter fun p => !(create && (p.period == some 0 || (p.periodic && p.period.isNone)))
    -- `rm=<groups>`: the periodic registrations left after a Remove URR that the data plane refused
    let rm := ((impl.split (· == ' ')).toList.map (·.toString)).find? (·.startsWith "rm=")
    -- `again=<groups>`: the periodic registrations after the same Create URR was handed over a second time and refused
    let again := ((impl.split (· == ' ')).toList.map (·.toString)).find? (·.startsWith "again=")
    let againFails : List String := match again, spec with
      | some a, some sp =>
        if !UrrSpec.wfb sp then [] else
        match wantPerio seid sp with
        | some want => if (a.drop 6).toString == want then [] else
            [s!"C03 create-urr: after a second Create URR of the same id, refused by the data plane (the rule is live), the URR's periodic registration is '{a.drop 6}'; its triggers and period demand '{want}'"]
        | none => []
      | _, _ => []
    pure { model := resShow r ++ " perio=" ++ perioShow p ++ (if again.isSome then " again=" ++ perioShow p else "") ++ (if rm.isSome then " rm=_" else ""),
           propFails := checkRule "C03" fn impl Cmd.addUrr spec UrrSpec.wfb readUrr (expectUrr link seid)
                        ++ checkPerio (if create then "create" else "update") impl seid spec ++ againFails
                        ++ (match rm with
                            | some f => if f == "rm=_" then [] else
                                [s!"C15 {fn}: the URR was removed (the data plane refused the removal: it had lost the rule) and is still registered for periodic querying: {f.drop 3}"]
                            | none => []) }
  | "drv.bar.create" | "drv.bar.update" =>
    let cs ← toks.mapM parseBarChild
    pure { model := resShow (true, [barReq link seid (if fn == "drv.bar.create" then flCreate else flUpdate) cs]),
           propFails := checkRule "C03" fn impl Cmd.addBar (specBar cs) (fun _ => true) readBar (expectBar link seid) }
  | _ => none

end UpfVerif.Driver.Drv
