import UpfVerif.Driver.Ctl
/-
Property predicates evaluated on the implementation's own observations of the S-ctl stream (events, driver
calls, datagrams, table dumps as printed by the harness) — independent of the model's prediction.
A failing predicate is a concrete history on which the property fails on the real code (the replay).
-/
namespace UpfVerif.Driver.CtlProps
open UpfVerif.Core UpfVerif.Driver UpfVerif.Driver.Ctl

structure DUrr where
  id : Nat
  seqn : Nat
  ref : Nat
  removed : Bool
  durat : Bool
  volum : Bool
  mnop : Bool
deriving Repr, BEq

structure DSess where
  up : Nat
  cp : Nat
  node : String        -- node id of the owning node object
  naddr : String       -- address that node associated from
  pdrs : List (Nat × List Nat)
  fars : List Nat
  qers : List Nat
  urrs : List DUrr
  bars : List Nat
  qs : List (Nat × Nat)
  raw : String
deriving Repr, BEq

structure DNode where
  key : String
  id : String
  addr : String
  sess : List Nat
deriving Repr, BEq

structure Dump where
  free : List Nat := []
  slots : Nat := 0
  sess : List DSess := []
  nodes : List DNode := []
  rx : List String := []
  tx : List (String × Nat) := []
  txUnarmed : List String := []     -- outstanding requests without a running retransmission timer
  rxUnarmed : List String := []     -- retained receive transactions without a running retention timer
  txseq : Nat := 0
  dp : List (Nat × String × Nat) := []
deriving Repr, BEq

def natList (s : String) (sep : Char) : List Nat := if s == "_" || s == "" then [] else (splitOn1 s sep).map natD
def field (s : String) : String := match splitOn1 s '=' with
  | _ :: v :: rest => String.intercalate "=" (v :: rest)
  | _ => ""

def parseSess (s : String) : Option DSess :=
  match splitOn1 s ';' with
  | [up, cp, node, p, f, q, u, b, k] =>
    some { up := hexD up, cp := hexD cp, node := (splitOn1 node '@').headD "", naddr := ((splitOn1 node '@').drop 1).headD "",
           pdrs := (listOf (field p)).map fun t => match splitOn1 t '/' with
             | [i, us] => (natD i, if us == "" then [] else natList us '+')
             | i :: _ => (natD i, [])
             | [] => (0, []),
           fars := natList (field f) ',', qers := natList (field q) ',',
           urrs := (listOf (field u)).filterMap fun t => match splitOn1 t '/' with
             | [i, sq, rf, rm, d, v, m] => some { id := natD i, seqn := natD sq, ref := natD rf, removed := rm == "1",
                                                  durat := d == "1", volum := v == "1", mnop := m == "1" }
             | _ => none,
           bars := natList (field b) ',',
           qs := (listOf (field k)).map fun t => match splitOn1 t '/' with
             | [i, n] => (natD i, natD n)
             | _ => (0, 0),
           raw := s }
  | _ => none

def parseDump (line : String) : Dump :=
  let m := kvs (wordsOf line)
  let sess := let s := lookD m "sess" "_"; if s == "_" then [] else (splitOn1 s '|').filterMap parseSess
  let nodes := (listOf (lookD m "nodes" "_")).filterMap fun t =>
    match splitOn1 t '#' with
    | [a, ss] => match splitOn1 a '>' with
      | [k, id, addr] => some { key := k, id := id, addr := addr, sess := if ss == "" then [] else (splitOn1 ss '+').map hexD }
      | _ => none
    | _ => none
  { free := (listOf (lookD m "free" "_")).map hexD, slots := natD (lookD m "slots" "0"), sess := sess, nodes := nodes,
    rx := listOf (lookD m "rx" "_"),
    tx := (listOf (lookD m "tx" "_")).map fun t => match splitOn1 t '/' with
      | [k, c] => (k, natD c)
      | [k, c, _] => (k, natD c)
      | _ => (t, 0),
    txUnarmed := (listOf (lookD m "tx" "_")).filterMap fun t => match splitOn1 t '/' with
      | [k, _, "-"] => some k
      | _ => none,
    rxUnarmed := listOf (lookD m "rxu" "_"),
    txseq := hexD (lookD m "txseq" "0"),
    dp := (listOf (lookD m "dp" "_")).filterMap fun t => match splitOn1 t '/' with
      | [s, k, i] => some (hexD s, k, natD i)
      | _ => none }

def Dump.live (d : Dump) (x : Nat) : Option DSess := d.sess.find? (·.up == x)

def DSess.ids (s : DSess) (kind : String) : List Nat :=
  match kind with
  | "pdr" => s.pdrs.map (·.1)
  | "far" => s.fars
  | "qer" => s.qers
  | "urr" => s.urrs.map (·.id)
  | "bar" => s.bars
  | _ => []

/-- an observed send, parsed -/
structure Send where
  peer : Nat
  kind : String
  f : List (String × String)
  raw : String

def parseSend (s : String) : Option Send :=
  match wordsOf s with
  | "send" :: p :: kind :: rest => some { peer := natD (field p), kind := kind, f := kvs rest, raw := s }
  | _ => none

structure UsarObs where
  urr : Nat
  seqn : Nat
  trig : Nat      -- flag word (little-endian octets decoded)
  times : String
  vol : String
  dur : String

def parseUsars (s : String) : List UsarObs :=
  if s == "_" || s == "" then [] else
  (splitOn1 s ';').filterMap fun t =>
    match splitOn1 t '/' with
    | [u, q, tr, ti, v, d] =>
      let b := (parseHexBytes tr).getD []
      let w := (b.getD 0 0).toNat + 256 * (b.getD 1 0).toNat + 65536 * (b.getD 2 0).toNat
      some { urr := natD u, seqn := natD q, trig := w, times := ti, vol := v, dur := d }
    | _ => none

/-- C12, specification side: which PDR names which URRs, as the accepted requests say -/
structure C12Sess where
  pdrs : List (Nat × List Nat) := []
  urrs : List Nat := []
  tainted : Bool := false      -- an id was re-used while live (Create of an existing PDR / URR id): outside what is checked
deriving Inhabited

def C12Sess.refs (c : C12Sess) (u : Nat) : Nat := (c.pdrs.filter fun p => p.2.contains u).length

/-- a usage report as the data plane produced it (driver answer or kernel notification) -/
structure SrcRep where
  urr : Nat
  trig : Nat
  meas : List Nat     -- six volume / packet counters, start time, end time, duration
deriving Repr

def parseSrcReps (s : String) : List SrcRep :=
  if s == "_" || s == "" then [] else
  (splitOn1 s ';').filterMap fun t =>
    match splitOn1 t ':' with
    | ["u", u, tr, ms] => some { urr := natD u, trig := hexD tr, meas := (splitOn1 ms '+').map natD }
    | _ => none

/-- C10, specification side: is the emitted usage report `u` the measured report `r`, carried as TS 29.244 says for a URR
    with measurement method (`durat`, `volum`) and measurement information `mnop` (`info = none`: not known here)? -/
def usarCarries (u : UsarObs) (r : SrcRep) (info : Option (Bool × Bool × Bool)) : Bool :=
  let extra := Gen.report.USAR_TRIG_TERMR ||| Gen.report.USAR_TRIG_IMMER
  let bit (w f : Nat) : Bool := w / f % 2 == 1
  let clear (w : Nat) : Nat := (List.range 24).foldl (fun acc i => if bit w (2 ^ i) && !bit extra (2 ^ i) then acc + 2 ^ i else acc) 0
  let noTimes := bit u.trig Gen.report.USAR_TRIG_START || bit u.trig Gen.report.USAR_TRIG_STOPT || bit u.trig Gen.report.USAR_TRIG_MACAR
  let timesOk := if noTimes then u.times == "-" else u.times == s!"{r.meas.getD 6 0}+{r.meas.getD 7 0}"
  let volOk :=
    if u.vol == "-" then (match info with | some (_, v, _) => !v | none => true) else
    match splitOn1 u.vol ':' with
    | [fl, cs] =>
      let f := hexD fl
      let c := (splitOn1 cs '+').map natD
      (List.range 6).all (fun i => if bit f (2 ^ i) then c.getD i 0 == r.meas.getD i 0 else true) &&
      (match info with | some (_, v, m) => v && f == (if m then 0x3f else 0x07) | none => true)
    | _ => false
  let durOk :=
    if u.dur == "-" then (match info with | some (d, _, _) => !d | none => true)
    else u.dur == toString (r.meas.getD 8 0) && (match info with | some (d, _, _) => d | none => true)
  u.urr == r.urr && clear u.trig == clear r.trig && timesOk && volOk && durOk

/-- what the predicates remember across the events of a case -/
structure PState where
  prev : Dump := {}
  cache : List ((Nat × Nat) × String) := []      -- (peer, seq) ↦ response the UPF produced for that request
  outst : List ((Nat × Nat) × (String × Nat)) := []   -- (peer, wire seq) ↦ (srreq as sent, header SEID)
  maxRetrans : Nat := 3
  nextSeqn : List ((Nat × Nat) × Nat) := []           -- (UP SEID, URR id) ↦ UR-SEQN the next report must carry
  c12 : List (Nat × C12Sess) := []                    -- UP SEID ↦ the PDR → URR lists and live URRs the requests imply (C12)
  faultPct : Nat := 0
  own : List (Nat × String) := []                     -- UP SEID ↦ the node id the session belongs to, as the requests say (C05)
  hadTakeover : Bool := false
  taken : List Nat := []                              -- sessions that were themselves taken over
  assocPeer : List (String × Nat) := []               -- node id ↦ the peer it (last) associated from
  tookOver : List Nat := []                           -- sessions that have been taken over by another node id at some point
  repOf : List ((Nat × Nat) × Nat) := []              -- (peer, wire seq) of an outstanding report ↦ UP SEID of the reporting session
  dark : List Nat := []     -- sessions that have belonged to the node whose address cannot be reached (4:p7): what was sent for them was seen by nobody
  umeth : List ((Nat × Nat) × (Bool × Bool × Bool)) := []   -- (UP SEID, URR id) ↦ (DURAT, VOLUM, MNOP) as the accepted Create / Update URR IEs say (C10)
deriving Inhabited

def listOf' (s : String) : List String := if s == "_" || s == "" then [] else splitOn1 s ';'

def eventKind (toks : List String) : String := lookD (kvs toks) "kind" (toks.headD "")

/-- evaluate the predicates for one event; returns failures tagged with the property id -/
def check (ps : PState) (evLine : String) (obs : List String) (fault : Option String) (dump : Option String) :
    PState × List String :=
  let toks := (wordsOf evLine).drop 1
  let typ := toks.headD ""
  let m := kvs toks
  let kind := lookD m "kind" ""
  let peer := natD (lookD m "p" "0")
  let seq := natD (lookD m "seq" "0")
  let seid := hexD (lookD m "seid" "0")
  let sends := obs.filterMap parseSend
  let dps := obs.filterMap fun o => match wordsOf o with
    | ["dp", s, op, k, id, res, _] => some (hexD s, op, k, natD id, res == "ok")
    | _ => none
  match fault with
  | some f =>
    let f07 := [s!"C07 the control plane faulted ({f}) while processing this event"]
    let isSess := (typ == "recv" && (kind == "mod" || kind == "del")) || typ == "report"
    let f04 := if isSess && (ps.prev.live seid).isNone then
        [s!"C04 SEID {hexN seid} is not a live session and must be answered 'context not found' without effect; the UPF faulted ({f})"] else []
    let f05 := if typ == "recv" && kind == "srrsp" && seid == 0 then
        ["C05 a Session Report Response with SEID 0 faulted the UPF instead of removing the matching session"] else []
    -- C08: every request is answered at the sender's address with its sequence number; a faulted UPF answers nothing
    let f09 := if typ == "recv" && kind ∈ ["srrsp", "orsp"] then
        [s!"C09 a response from p{peer} with sequence number {seq}" ++
         (if (ps.outst.any fun o => o.1 == (peer, seq)) then "" else " (matching no outstanding request: it must be ignored)") ++
         s!" faulted the UPF ({f})"] else []
    let f09 := f09 ++ (if typ == "tmo" then
        [s!"C09 the expiry of timer {lookD m "k" "?"} p{peer}-{seq}" ++
         (if lookD m "k" "" == "tx" && !(ps.prev.tx.any fun t => t.1 == s!"p{peer}-{seq}") then " (matching no outstanding request: it must be ignored)" else "") ++
         s!" faulted the UPF ({f})"] else [])
    let f08 := if typ == "recv" && kind ∈ ["hb", "assoc", "est", "mod", "del"] then
        [s!"C08 the {kind} request from p{peer} seq {seq}" ++
         (if (kind == "mod" || kind == "del") && (ps.prev.live seid).isNone
          then s!" for SEID {hexN seid} (no such session: 'session context not found' with SEID 0 is due)" else "") ++
         s!" was not answered; the UPF faulted ({f})"] else []
    (ps, f07 ++ f04 ++ f05 ++ f08 ++ f09)
  | none =>
  let d := match dump with
    | some l => parseDump l
    | none => ps.prev
  let prev := ps.prev
  let isDup := typ == "recv" && kind ∈ ["hb", "assoc", "est", "mod", "del", "other"] && prev.rx.contains s!"p{peer}-{seq}"
  -- takeover (Modification Request with a Node ID) re-keys the node of the addressed session, with all its sessions
  let takeover := typ == "recv" && kind == "mod" && lookD m "node" "-" != "-"
  let norm (s : DSess) : DSess := if takeover then { s with node := "", naddr := "", raw := "" } else s
  let sessUnchanged (except : List Nat) : Bool :=
    (prev.sess.filter fun s => !except.contains s.up).all fun s => d.sess.any (norm · == norm s)
  let fails : List String := Id.run do
    let mut fs : List String := []
    -- C01a: every rule in the data plane belongs to a live session that has it recorded
    for (s, k, i) in d.dp do
      match d.live s with
      | none => fs := fs ++ [s!"C01 data-plane rule {hexN s}/{k}/{i} belongs to no live session"]
      | some ds => if !(ds.ids k).contains i then fs := fs ++ [s!"C01 data-plane rule {hexN s}/{k}/{i} is not recorded for its session"]
    -- C01b: update/remove/query only for rules the session has created
    let mut created : List (Nat × String × Nat) := []
    for (s, op, k, i, _) in dps do
      if op == "create" then created := (s, k, i) :: created
      else
        let known := (match prev.live s with
          | some ds => (ds.ids k).contains i
          | none => false) || created.contains (s, k, i)
        if !known then fs := fs ++ [s!"C01 {op} {k} {i} reached the data plane for session {hexN s}, which has not created that rule"]
    -- C05: driver calls carry the addressed session's SEID; other sessions untouched
    if typ == "recv" && (kind == "mod" || kind == "del") && !isDup then
      for (s, op, k, i, _) in dps do
        if s != seid then fs := fs ++ [s!"C05 {op} {k} {i} tagged with SEID {hexN s} while processing a request for SEID {hexN seid}"]
      if !sessUnchanged [seid] then fs := fs ++ [s!"C05 a session other than {hexN seid} changed"]
    if typ == "report" then
      for (s, op, k, i, _) in dps do
        if s != seid then fs := fs ++ [s!"C05 {op} {k} {i} tagged with SEID {hexN s} while serving a report of SEID {hexN seid}"]
      if !sessUnchanged [seid] then fs := fs ++ [s!"C05 a session other than {hexN seid} changed while serving a report"]
    -- C04 / C05: a session ends only by its own deletion, re-association of its node, or the SEID-0 answer to its report
    let gone := prev.sess.filter fun s => (d.live s.up).isNone || ((d.live s.up).map (·.cp)) != some s.cp
    let justified (s : DSess) : Bool :=
      if typ == "recv" && kind == "del" then s.up == seid
      else if typ == "recv" && kind == "assoc" then
        -- (the table dump prints IPv6 / FQDN node ids without the event line's type tag)
        let n := lookD m "node" "-"
        s.node == n || s!"6:{s.node}" == n || s!"f:{s.node}" == n
      else if typ == "recv" && kind == "srrsp" && seid == 0 then
        match ps.outst.find? (·.1 == (peer, seq)) with
        | some o => s.cp == o.2.2 && s.naddr == s!"p{peer}"
        | none => false
      else false
    -- C01 / C05: the peer answers the report of a session with SEID 0 ("no such session here"): that session ends and every
    -- rule of it is withdrawn — whichever other sessions carry the same control-plane SEID
    if typ == "recv" && kind == "srrsp" && seid == 0 then
      match ps.repOf.find? (·.1 == (peer, seq)), ps.outst.find? (·.1 == (peer, seq)) with
      | some (_, x), some o =>
        match prev.live x with
        | some sx =>
          let mine := prev.sess.filter fun t => t.cp == o.2.2 && t.naddr == s!"p{peer}"
          if sx.cp == o.2.2 && sx.naddr == s!"p{peer}" && mine.length == 1 then
            if (d.live x).isSome then
              fs := fs ++ [s!"C01 p{peer} answered the report of session {hexN x} (control-plane SEID {hexN sx.cp}) with SEID 0: the session must end; it is still there",
                           s!"C05 the SEID-0 answer of p{peer} to the report of session {hexN x} did not remove that session"]
            if d.dp.any (·.1 == x) then
              fs := fs ++ [s!"C01 rules of session {hexN x} remain in the data plane after its peer answered its report with SEID 0"]
        | none => pure ()
      | _, _ => pure ()
    if !isDup then
      for s in gone do
        if !justified s then
          fs := fs ++ [s!"C04 session {hexN s.up} ended although it was not deleted, its node did not re-associate and no SEID-0 response matched it",
                       s!"C05 session {hexN s.up} (node {s.node}) was removed by an event addressed to something else"]
    -- C04 / C08: unknown SEID ⇒ 'context not found' (cause 65, SEID 0), no side effect
    if typ == "recv" && (kind == "mod" || kind == "del") && !isDup && (prev.live seid).isNone then
      let ok := match sends with
        | [s] => s.peer == peer && lookD s.f "cause" "" == "65" && lookD s.f "seid" "" == "0" && lookD s.f "seq" "" == toString seq
        | _ => false
      if !ok then fs := fs ++ [s!"C04 request for SEID {hexN seid} (not live) was not answered 'session context not found' with SEID 0"]
      if !dps.isEmpty || !sessUnchanged [] || d.dp != prev.dp then
        fs := fs ++ [s!"C04 request for SEID {hexN seid} (not live) had side effects"]
    -- C04: establishment issues a fresh non-zero SEID that from then on addresses the new session
    if typ == "recv" && kind == "est" && !isDup then
      for s in sends do
        if s.kind == "estrsp" then
          let fs' := (splitOn1 (lookD s.f "fseid" "-") '/').headD "0"
          let up := hexD fs'
          if up == 0 then fs := fs ++ ["C04 established session got UP SEID 0"]
          if (prev.live up).isSome then fs := fs ++ [s!"C04 UP SEID {hexN up} issued although a live session holds it"]
          match d.live up with
          | none => fs := fs ++ [s!"C08 UP F-SEID {hexN up} of the Establishment Response does not address a session"]
          | some ds => if toString ds.cp != toString (hexD (lookD m "cp" "0")) then
              fs := fs ++ [s!"C08 session {hexN up} does not carry the control-plane SEID of the request"]
    -- C06: a retransmission is not executed again and is answered with the cached bytes.  Whether this request IS a
    -- retransmission is decided on the specification side too (an answered request of that peer and sequence number
    -- whose retention has not expired), not only by the implementation's own receive table
    let specDup := typ == "recv" && kind ∈ ["hb", "assoc", "est", "mod", "del", "other"] &&
      (ps.cache.find? (·.1 == (peer, seq))).isSome
    if isDup || specDup then
      if !dps.isEmpty then fs := fs ++ [s!"C06 retransmitted request p{peer}-{seq} reached the data plane again"]
      if !sessUnchanged [] || d.nodes != prev.nodes || d.dp != prev.dp then fs := fs ++ [s!"C06 retransmitted request p{peer}-{seq} changed session state"]
      let cached := (ps.cache.find? (·.1 == (peer, seq))).map (·.2)
      let got := sends.map (·.raw)
      let want := match cached with
        | some c => [c]
        | none => []
      if got != want then fs := fs ++ [s!"C06 retransmitted request p{peer}-{seq} was answered differently from the first copy"]
    -- C08: a Heartbeat Request and an Association Setup Request that names its node are always answered (first copies;
    -- retransmissions are answered from the cache, C06)
    if typ == "recv" && !isDup && !specDup then
      if kind == "hb" && !(sends.any fun s => s.kind == "hbrsp" && s.peer == peer) then
        fs := fs ++ [s!"C08 the Heartbeat Request from p{peer} seq {seq} was not answered"]
      if kind == "assoc" && lookD m "node" "-" != "-" && !(sends.any fun s => s.kind == "assocrsp" && s.peer == peer) then
        fs := fs ++ [s!"C08 the Association Setup Request of node {lookD m "node" "-"} from p{peer} seq {seq} was not answered"]
    -- C08: responses go to the requester with its sequence number
    if typ == "recv" && kind ∈ ["hb", "assoc", "est", "mod", "del"] then
      for s in sends do
        if s.kind != "srreq" then
          if s.peer != peer || lookD s.f "seq" "" != toString seq then
            fs := fs ++ [s!"C08 response {s.kind} went to p{s.peer} seq {lookD s.f "seq" ""} for a request from p{peer} seq {seq}"]
          if lookD s.f "ts" "same" != "same" then fs := fs ++ ["C08 recovery time stamp changed during the lifetime of the process"]
          if lookD s.f "node" "1" == "bad" then fs := fs ++ ["C08 response carries a wrong node id"]
    -- C08: the Created PDR IEs of an accepted Session Establishment Response name exactly the PDRs of the request that carry a
    -- UE IP address, each with that address, whatever the order of the children inside the Create PDR IEs
    if typ == "recv" && kind == "est" && !isDup then
      let toks := listOf (lookD m "pdr" "_")
      let parts := toks.map fun t => splitOn1 t '/'
      if parts.all fun f => (parseId (f.headD "-")).isSome then
        let want := parts.filterMap fun f =>
          match f with
          | i :: _ :: ip :: _ => if ip == "" then none else some s!"{(parseId i).getD 0}/{ip}"
          | _ => none
        for s in sends do
          if s.kind == "estrsp" && lookD s.f "cause" "" == "1" then
            let got := listOf (lookD s.f "created" "_")
            if got != want then
              fs := fs ++ [s!"C08 the Session Establishment Response's Created PDR IEs are {reprStr got}; the PDRs the request created with a UE IP address are {reprStr want}"]
    -- C03: every Update QER / Update URR / Update BAR IE of a Modification Request for a rule the session has is handed to the
    -- data plane — under the session's SEID, with that rule id, once per IE — whatever was sent for that id earlier
    if typ == "recv" && kind == "mod" && !isDup then
      match prev.live seid with
      | none => pure ()
      | some ds =>
        for (key, k) in [("uqer", "qer"), ("uurr", "urr"), ("ubar", "bar")] do
          let ids := ((listOf (lookD m key "_")).map fun t => (splitOn1 t '/').headD "-").filterMap parseId
          -- rules created or removed in this very request are left to the lock-step comparison
          let touchedHere := (["c" ++ k, "r" ++ k].flatMap fun kk => ((listOf (lookD m kk "_")).map fun t => (splitOn1 t '/').headD "-").filterMap parseId)
          for i in ids.eraseDups do
            if (ds.ids k).contains i && !touchedHere.contains i then
              let want := (ids.filter (· == i)).length
              let got := (dps.filter fun x => x.1 == seid && x.2.1 == "update" && x.2.2.1 == k && x.2.2.2.1 == i).length
              if got != want then
                fs := fs ++ [s!"C03 the request carries {want} Update {k.toUpper} IE(s) for rule {i} of session {hexN seid}; {got} reached the data plane"]
    -- C08: a request answered with an error cause, or not at all, leaves no trace
    if typ == "recv" && kind ∈ ["est", "mod", "del"] && !isDup then
      let accepted := sends.any fun s => s.kind != "srreq" && lookD s.f "cause" "" == "1"
      if !accepted && (!sessUnchanged [] || d.dp != prev.dp || d.nodes != prev.nodes || !dps.isEmpty) then
        fs := fs ++ [s!"C08 request was not accepted but left a trace in session or data-plane state"]
    -- C09: Session Report Requests: 24-bit sequence numbers, distinct among outstanding ones to that peer
    for s in sends do
      if s.kind == "srreq" then
        let q := natD (lookD s.f "seq" "0")
        if q ≥ 16777216 then fs := fs ++ ["C09 sequence number outside the 24-bit space"]
        let isRetrans := typ == "tmo"
        if !isRetrans && (ps.outst.any fun o => o.1 == (s.peer, q)) then
          fs := fs ++ [s!"C09 new Session Report Request re-uses sequence number {q} of an outstanding one to p{s.peer}"]
    -- C09: a matching response retires the request; a retry is byte-identical; the last expiry abandons it
    if typ == "recv" && (kind == "srrsp" || kind == "orsp") then
      match ps.outst.find? (·.1 == (peer, seq)) with
      | some _ =>
        if d.tx.any fun t => t.1 == s!"p{peer}-{seq}" then
          fs := fs ++ [s!"C09 response from p{peer} with sequence number {seq} did not retire the outstanding request"]
      | none =>
        if d.tx.length != prev.tx.length || !sessUnchanged [] || d.dp != prev.dp then
          fs := fs ++ ["C09 a response matching no outstanding request had an effect"]
    -- C09: an outstanding request is retried or abandoned only by its timer: every one must have a timer running
    -- C06: the bookkeeping of a received request is released when its retention window ends — answered or not: every entry
    -- has its retention timer running from the moment it exists
    for k in d.rxUnarmed do
      fs := fs ++ [s!"C06 the receive transaction {k} has no retention timer running: its entry is never released, and every later request of that peer with this sequence number is taken for a retransmission"]
    for k in d.txUnarmed do
      fs := fs ++ [s!"C09 outstanding request {k} has no retransmission timer running: it can neither be retried nor abandoned"]
    if typ == "tmo" && lookD m "k" "" == "tx" then
      match ps.outst.find? (·.1 == (peer, seq)), prev.tx.find? (·.1 == s!"p{peer}-{seq}") with
      | some o, some t =>
        if t.2 < ps.maxRetrans then
          if sends.map (·.raw) != [o.2.1] then fs := fs ++ [s!"C09 retry of request p{peer}-{seq} is not one identical retransmission"]
        else
          if !sends.isEmpty || (d.tx.any fun t' => t'.1 == t.1) then fs := fs ++ [s!"C09 request p{peer}-{seq} not abandoned after the last retry"]
      | some _, none =>
        if (prev.tx.all fun t => t.1 != s!"p{peer}-{seq}") then
          fs := fs ++ [s!"C09 outstanding request p{peer}-{seq} has no bookkeeping entry under its wire sequence number"]
      | _, _ => pure ()
    -- C09 / C06: an expiry concerns the kind of transaction its timer was started for, and only that one — a request timer
    -- never touches the retained responses, a retention timer never retries or abandons a request, an expiry that matches
    -- nothing (the transaction completed while the expiry was queued) has no effect at all
    if typ == "tmo" then
      let k := lookD m "k" ""
      let key := s!"p{peer}-{seq}"
      if k == "tx" then
        if d.rx != prev.rx then
          fs := fs ++ [s!"C09 the expiry of the request timer {key} changed the retained responses ({reprStr prev.rx} before, {reprStr d.rx} after): it belongs to requests sent, not to requests received",
                       s!"C06 the retained response of a received request was released by the expiry of a request timer ({key}), before its retention window ended"]
        if !(prev.tx.any fun t => t.1 == key) && (d.tx != prev.tx || !sends.isEmpty) then
          fs := fs ++ [s!"C09 the expiry of request timer {key}, which matches no outstanding request, had an effect"]
      if k == "rx" then
        if d.tx != prev.tx || !sends.isEmpty then
          fs := fs ++ [s!"C09 the expiry of the retention timer of received request {key} retried or abandoned an outstanding request ({reprStr prev.tx} before, {reprStr d.tx} after, {sends.length} datagram(s) sent)"]
        if prev.rx.contains key && d.rx.contains key then
          fs := fs ++ [s!"C06 the retained response of {key} was not released at the end of its retention window"]
        if d.rx.filter (· != key) != prev.rx.filter (· != key) then
          fs := fs ++ [s!"C06 the retention expiry of {key} changed the retained responses of other requests"]
    return fs
  -- C11 (external): expected numbering from the history of Create URR IEs and emitted reports
  let createdUrrs (key : String) : List Nat := ((listOf (lookD m key "_")).map fun t => (splitOn1 t '/').headD "-").filterMap parseId
  let (seq1, c11fails) : List ((Nat × Nat) × Nat) × List String := Id.run do
    let mut tbl := ps.nextSeqn
    let mut fs : List String := []
    if typ == "recv" && !isDup then
      -- a new session: its SEID may have been used before
      if kind == "est" then
        for s in sends do
          if s.kind == "estrsp" then
            let up := hexD ((splitOn1 (lookD s.f "fseid" "-") '/').headD "0")
            tbl := tbl.filter (·.1.1 != up)
            for u in createdUrrs "urr" do
              tbl := ((up, u), 0) :: tbl
      if kind == "mod" && (prev.live seid).isSome then
        for u in createdUrrs "curr" do
          tbl := ((seid, u), 0) :: tbl.filter (·.1 != (seid, u))
    if !isDup && typ != "tmo" then
      for s in sends do
        if s.kind ∈ ["modrsp", "delrsp", "srreq"] then
          let up := if typ == "report" || (typ == "recv" && (kind == "mod" || kind == "del")) then seid else 0
          if (prev.live up).isSome && !ps.dark.contains up then
            for u in parseUsars (lookD s.f "usar" "_") do
              let want := ((tbl.find? (·.1 == (up, u.urr))).map (·.2)).getD 0
              if u.seqn != want then
                fs := fs ++ [s!"C11 usage report of URR {u.urr} (session {hexN up}) carries UR-SEQN {u.seqn}; it is report number {want} since the URR was created"]
              tbl := ((up, u.urr), want + 1) :: tbl.filter (·.1 != (up, u.urr))
    return (tbl, fs)
  -- C12 (external): a URR that loses its last referring PDR in this request has its usage queried exactly once and the
  -- reports returned are flagged TERMR in the response
  let pdrRules (key : String) : List (Nat × List Nat) := (listOf (lookD m key "_")).filterMap fun t =>
    match splitOn1 t '/' with
    | i :: us :: _ => (parseId i).map fun n => (n, if us == "" then [] else (natList us '+').eraseDups)
    | [i] => (parseId i).map fun n => (n, [])
    | [] => none
  let idRules (key : String) : List Nat := ((listOf (lookD m key "_")).map fun t => (splitOn1 t '/').headD "-").filterMap parseId
  -- a rule IE without its id child is not well-formed (the code files it under id 0): such sessions are left out
  let noId (keys : List String) : Bool := keys.any fun key =>
    (listOf (lookD m key "_")).any fun t => (parseId ((splitOn1 t '/').headD "-")).isNone
  let (c12', c12fails) : List (Nat × C12Sess) × List String := Id.run do
    let mut tbl := ps.c12
    let mut fs : List String := []
    if typ == "recv" && !isDup && kind == "est" then
      for s in sends do
        if s.kind == "estrsp" && lookD s.f "cause" "" == "1" then
          let up := hexD ((splitOn1 (lookD s.f "fseid" "-") '/').headD "0")
          let pd := pdrRules "pdr"
          let ur := idRules "urr"
          let dupIds := (pd.map (·.1)).eraseDups.length != pd.length || ur.eraseDups.length != ur.length || noId ["pdr", "urr"]
          tbl := (up, { pdrs := pd, urrs := ur, tainted := dupIds }) :: tbl.filter (·.1 != up)
    if typ == "recv" && !isDup && kind == "del" then tbl := tbl.filter (·.1 != seid)
    if typ == "recv" && !isDup && kind == "assoc" then
      tbl := tbl.filter fun e => (d.live e.1).isSome
    if typ == "recv" && !isDup && kind == "srrsp" then
      tbl := tbl.filter fun e => (d.live e.1).isSome
    if typ == "recv" && !isDup && kind == "mod" && (prev.live seid).isSome then
      match tbl.find? (·.1 == seid) with
      | none => pure ()
      | some (_, c0) =>
        let mut c := if noId ["cpdr", "curr", "rpdr", "rurr", "updr"] then { c0 with tainted := true } else c0
        let mut expectQ : List Nat := []
        for u in idRules "curr" do
          if c.urrs.contains u then c := { c with tainted := true } else c := { c with urrs := c.urrs ++ [u] }
        -- Create PDR for a LIVE PDR id: by the property the PDR's current list is the new one, and a URR only the old list
        -- named has lost its last referring PDR.  The code overwrites the set without releasing the old references
        -- (known finding recreatePdrLive); after that the session's counts are off and it is left out.
        let mut recreated : List (Nat × List Nat) := []
        let wasClean := !c.tainted
        for (i, us) in pdrRules "cpdr" do
          match c.pdrs.find? (·.1 == i) with
          | some (_, old) =>
            c := { c with pdrs := c.pdrs.map fun p => if p.1 == i then (i, us) else p }
            recreated := recreated ++ [(i, (old ++ us).eraseDups)]
            c := { c with tainted := true }
          | none => c := { c with pdrs := c.pdrs ++ [(i, us)] }
        for u in idRules "rurr" do
          c := { c with urrs := c.urrs.filter (· != u) }
        for i in idRules "rpdr" do
          match c.pdrs.find? (·.1 == i) with
          | none => pure ()
          | some (_, us) =>
            c := { c with pdrs := c.pdrs.filter (·.1 != i) }
            for u in us do
              if c.urrs.contains u && c.refs u == 0 then expectQ := expectQ ++ [u]
        for (i, us) in pdrRules "updr" do
          match c.pdrs.find? (·.1 == i) with
          | none => pure ()
          | some (_, old) =>
            c := { c with pdrs := c.pdrs.map fun p => if p.1 == i then (i, us) else p }
            for u in old do
              if !us.contains u && c.urrs.contains u && c.refs u == 0 then expectQ := expectQ ++ [u]
        -- faults injected into the data plane make "the PDR exists" itself uncertain: the predicate is evaluated on fault-free cases
        let anyErr := dps.any fun x => !x.2.2.2.2
        -- a data-plane refusal (possible without injected faults: duplicate ids and the like) leaves request and
        -- bookkeeping in a state the spec side does not follow: the session is left out from here on
        if anyErr then c := { c with tainted := true }
        -- whatever one makes of the request itself (the data plane refuses the duplicate), the implementation's own two
        -- tables must agree afterwards: the count of a URR is the number of PDRs whose recorded list names it
        if wasClean && !c0.tainted && ps.faultPct == 0 then
          match d.live seid with
          | none => pure ()
          | some ds =>
            for (i, us) in recreated do
              for u in us do
                match ds.urrs.find? (·.id == u) with
                | none => pure ()
                | some info =>
                  let n := (ds.pdrs.filter fun p => p.2.contains u).length
                  if info.ref != n then
                    fs := fs ++ [s!"C12 session {hexN seid}: Create PDR re-used the live PDR id {i}; URR {u} is now recorded as referred to by {info.ref} PDR(s) while {n} PDR(s) name it — the references of the replaced list were not released sig=recreatePdrLive"]
        if !c.tainted && !c0.tainted && ps.faultPct == 0 && !anyErr then
          for u in expectQ.eraseDups do
            let nq := (dps.filter fun x => x.1 == seid && x.2.1 == "query" && x.2.2.1 == "urr" && x.2.2.2.1 == u).length
            let times := (expectQ.filter (· == u)).length
            -- Query URR IEs of the same request query the data plane too (immediate reports, not final ones)
            -- (an Update URR for it returns reports as well; those carry neither flag; it does not query, though)
            let explicit := ((idRules "qurr").filter (· == u)).length
            let others := explicit + ((idRules "uurr").filter (· == u)).length
            if nq < times || nq > times + explicit then
              fs := fs ++ [s!"C12 URR {u} of session {hexN seid} lost its last referring PDR in this request ({times} time(s)); its usage was queried {nq} time(s) — the final report is due exactly once"]
            else
              -- what the data plane returned for that URR must come back flagged as termination report
              let rsp := (sends.filter fun s => s.kind == "modrsp").flatMap fun s => parseUsars (lookD s.f "usar" "_")
              let mine := rsp.filter (·.urr == u)
              -- (with a Query URR for the same URR in the request, its immediate reports sit next to the final one
              --  and cannot be told apart here: the flag is then judged by the lock-step comparison only)
              if others == 0 && mine.any fun r => r.trig / Gen.report.USAR_TRIG_TERMR % 2 == 0 then
                fs := fs ++ [s!"C12 the final report of URR {u} (session {hexN seid}) is not marked as a termination report"]
        -- Remove URR: what the data plane returned for the removed URR comes back in this very response, flagged TERMR —
        -- whatever else the request does with that URR (a Query URR for it gives an immediate report next to it)
        if !c0.tainted && ps.faultPct == 0 then
          for u in (idRules "rurr").eraseDups do
            if c0.urrs.contains u then
              let returned := obs.any fun o => match wordsOf o with
                | ["dp", s', "remove", "urr", i, "ok", reps] =>
                  -- (the reference data plane now and then answers with a report naming another URR: not this URR's usage)
                  hexD s' == seid && natD i == u && (parseSrcReps reps).any (·.urr == u)
                | _ => false
              if returned then
                let rsp := (sends.filter fun s => s.kind == "modrsp").flatMap fun s => parseUsars (lookD s.f "usar" "_")
                if !(rsp.any fun r => r.urr == u && r.trig / Gen.report.USAR_TRIG_TERMR % 2 == 1) then
                  fs := fs ++ [s!"C12 URR {u} of session {hexN seid} was removed and the data plane returned its usage; the response carries no termination report for it"]
        tbl := (seid, c) :: tbl.filter (·.1 != seid)
    -- the bookkeeping itself: a URR counts as referenced by precisely the PDRs whose current URR list names it,
    -- and a PDR's recorded list is what Create / Update PDR last gave it
    if ps.faultPct == 0 && !isDup then
      for (up, c) in tbl do
        if !c.tainted then
          match d.live up with
          | none => pure ()
          | some ds =>
            let norm (l : List (Nat × List Nat)) : List (Nat × List Nat) :=
              (l.map fun p => (p.1, (p.2.toArray.qsort (· < ·)).toList)).toArray.qsort (fun a b => a.1 < b.1) |>.toList
            if norm ds.pdrs != norm c.pdrs then
              fs := fs ++ [s!"C12 session {hexN up}: the PDRs' recorded URR lists are {reprStr (norm ds.pdrs)}; Create / Update / Remove PDR so far give {reprStr (norm c.pdrs)}"]
            -- (d) the URRs the session knows are the ones created and not removed by the requests: ending the last reference of
            -- a URR (Remove / Update PDR) does not end the URR
            let have_ := ((ds.urrs.filter fun u => !u.removed).map (·.id)).toArray.qsort (· < ·) |>.toList
            let want := (c.urrs.eraseDups).toArray.qsort (· < ·) |>.toList
            if have_ != want then
              fs := fs ++ [s!"C12 session {hexN up}: the URRs the session knows are {reprStr have_}; Create URR / Remove URR so far give {reprStr want} (a URR that lost its last referring PDR still exists: a later Remove / Query URR or the session's deletion must still return its usage)"]
            for u in ds.urrs do
              let n := (ds.pdrs.filter fun p => p.2.contains u.id).length
              if u.ref != n then
                fs := fs ++ [s!"C12 session {hexN up}: URR {u.id} is recorded as referred to by {u.ref} PDR(s); {n} PDR(s) name it in their current URR list"]
    return (tbl, fs)
  -- C10 (external): every usage report sent carries a report the data plane produced in this event for that session — URR id,
  -- trigger, start / end time, counters and duration as measured, the measurement IEs as the URR's method and MNOP select
  let c10fails : List String := Id.run do
    let mut fs : List String := []
    if !isDup && typ != "tmo" && (typ == "report" || (typ == "recv" && (kind == "mod" || kind == "del"))) then
      match prev.live seid with
      | none => pure ()
      | some ds =>
        let fromDp : List SrcRep := obs.flatMap fun o => match wordsOf o with
          | ["dp", s', _, "urr", _, "ok", reps] => if hexD s' == seid then parseSrcReps reps else []
          | _ => []
        let srcs := fromDp ++ (if typ == "report" then parseSrcReps (lookD m "items" "_") else [])
        -- URRs whose method may change inside this very request: IE selection is not judged for them
        let touched := (["curr", "uurr"].flatMap fun key => (listOf (lookD m key "_")).map fun t => (splitOn1 t '/').headD "-").filterMap parseId
        for s in sends do
          if s.kind ∈ ["modrsp", "delrsp", "srreq"] then
            for u in parseUsars (lookD s.f "usar" "_") do
              -- which measurement IEs the report must carry: by the URR's method and information as the Create URR and the
              -- Update URRs so far say (an Update URR changes what it carries and nothing else) — not by the implementation's table
              let info := if touched.contains u.urr then none else
                (ps.umeth.find? (·.1 == (seid, u.urr))).map (·.2)
              if !(srcs.any fun r => usarCarries u r info) then
                fs := fs ++ [s!"C10 usage report of URR {u.urr} in the {s.kind} of session {hexN seid} (trigger {u.trig}, times {u.times}, volume {u.vol}, duration {u.dur}) " ++
                             s!"is not one of the reports the data plane produced for it in this event, carried as measured: {reprStr (srcs.filter (·.urr == u.urr))}"]
                -- C19: everything but the trigger octets is as measured — the flag word on the wire is not the word the report was
                -- produced with (TERMR / IMMER apart, which the control plane adds itself)
                if srcs.any fun r => usarCarries { u with trig := r.trig } r info then
                  fs := fs ++ [s!"C19 the Usage Report Trigger octets of URR {u.urr}'s report in the {s.kind} of session {hexN seid} decode to flag word {u.trig}; " ++
                               s!"the data plane produced that report with {reprStr ((srcs.filter (·.urr == u.urr)).map (·.trig))} (only TERMR / IMMER may be added)"]
        -- a notification's reports for URRs the session knows are all delivered (none missing, none twice)
        if typ == "report" && !ps.dark.contains seid then
          for uid in (srcs.map (·.urr)).eraseDups do
            let want := if ds.urrs.any (·.id == uid) then (srcs.filter (·.urr == uid)).length else 0
            let got := ((sends.filter (·.kind == "srreq")).flatMap fun s => (parseUsars (lookD s.f "usar" "_")).filter (·.urr == uid)).length
            if got != want then
              fs := fs ++ [s!"C10 the data plane reported URR {uid} of session {hexN seid} {want} time(s) (known to the session: {ds.urrs.any (·.id == uid)}); the Session Report Request carries it {got} time(s)"]
    return fs
  -- C05 (external): whose session is it?  By the requests: the node id of the Establishment Request, later the node id of
  -- a Modification Request that takes THIS session over.  Re-association of node id N removes exactly those sessions.
  let (own', c05fails) : List (Nat × String) × List String := Id.run do
    let mut own := ps.own
    let mut fs : List String := []
    if typ == "recv" && !isDup then
      if kind == "est" && lookD m "node" "-" != "-" then
        for s in sends do
          if s.kind == "estrsp" && lookD s.f "cause" "" == "1" then
            let up := hexD ((splitOn1 (lookD s.f "fseid" "-") '/').headD "0")
            own := (up, lookD m "node" "-") :: own.filter (·.1 != up)
      if kind == "mod" && lookD m "node" "-" != "-" && (prev.live seid).isSome then
        own := (seid, lookD m "node" "-") :: own.filter (·.1 != seid)
      if kind == "assoc" && lookD m "node" "-" != "-" && (sends.any fun s => s.kind == "assocrsp" && lookD s.f "cause" "" == "1") then
        let n := lookD m "node" "-"
        let expected := ((own.filter (·.2 == n)).map (·.1)).filter fun up => (prev.live up).isSome
        let actual := (prev.sess.filter fun s => (d.live s.up).isNone).map (·.up)
        let srt (l : List Nat) : List Nat := (l.toArray.qsort (· < ·)).toList
        if srt expected != srt actual then
          fs := fs ++ [s!"C05 re-association of node {n} removed sessions {reprStr (srt (actual.map id))}; the sessions established under (or taken over by) that node id are {reprStr (srt expected)}" ++
                       (if ps.hadTakeover then " sig=takeoverNode" else "")]
        -- C04: a SEID whose session was swept away by the re-association of its node resolves to nothing from then on
        -- (histories with a takeover are left to C05: the takeover finding moves sessions between node objects)
        if !ps.hadTakeover then
          -- C01: … and none of its rules stays behind in the data plane
          for up in expected do
            let left := d.dp.filter (·.1 == up)
            if !left.isEmpty then
              fs := fs ++ [s!"C01 the re-association of node {n} ended session {hexN up}; {left.length} of its rules are still in the data plane ({String.intercalate "," (left.map fun e => s!"{e.2.1}/{e.2.2}")})"]
          for up in expected do
            if !actual.contains up then
              fs := fs ++ [s!"C04 SEID {hexN up} still resolves to a session after the re-association of node {n}, which ends every session of that node: requests for it are no longer answered 'session context not found'"]
    -- sessions that are gone are nobody's
    own := own.filter fun e => (d.live e.1).isSome
    return (own, fs)
  -- a Modification Request whose Node ID is the one the session already belongs to takes nothing over (an SMF may always
  -- send its own Node ID): only a different node id is a takeover
  -- (once a real takeover has happened the node objects no longer follow the requests — known finding takeoverNode — and a
  --  Node ID equal to the owner by the requests may still rename an object: from then on every such request counts)
  let isTakeover := typ == "recv" && kind == "mod" && lookD m "node" "-" != "-" && !isDup && (prev.live seid).isSome &&
    (ps.hadTakeover || (ps.own.find? (·.1 == seid)).map (·.2) != some (lookD m "node" "-"))
  -- sessions whose node object has surely not been renamed by somebody else's takeover: a takeover (the mechanism renames
  -- the whole node object — known finding takeoverNode, C05) leaves only the session taken over; sessions established
  -- later are added again
  let estUps : List Nat := if typ == "recv" && kind == "est" && !isDup then
      (sends.filter fun s => s.kind == "estrsp" && lookD s.f "cause" "" == "1").map fun s =>
        hexD ((splitOn1 (lookD s.f "fseid" "-") '/').headD "0") else []
  let taken' := if isTakeover then [seid] else estUps ++ ps.taken.filter (fun u => !estUps.contains u)
  let assocPeer' := if typ == "recv" && kind == "assoc" && !isDup && lookD m "node" "-" != "-" &&
      (sends.any fun s => s.kind == "assocrsp" && lookD s.f "cause" "" == "1")
    then (lookD m "node" "-", peer) :: ps.assocPeer.filter (·.1 != lookD m "node" "-") else ps.assocPeer
  -- C10 (external): a Session Report Request goes to the control-plane node that owns the session — the address its node
  -- id names (IPv4 node id) or the address that node associated from (IPv6 / FQDN node id)
  let c10dest : List String := Id.run do
    let mut fs : List String := []
    if typ == "report" && (prev.live seid).isSome then
      match ps.own.find? (·.1 == seid) with
      | none => pure ()
      | some (_, n) =>
        -- after a takeover the node object of OTHER sessions has been renamed too (known finding takeoverNode, C05):
        -- only sessions untouched by that, or taken over themselves, are judged
        if ps.taken.contains seid then
          let want : Option Nat := if n.startsWith "4:p" then (n.drop 3).toString.toNat? else (ps.assocPeer.find? (·.1 == n)).map (·.2)
          match want with
          | none => pure ()
          | some w =>
            for s in sends do
              if s.kind == "srreq" && s.peer != w then
                -- a session taken over by an IPv6 / FQDN node id: the mechanism renames the OLD node object, which keeps the
                -- address the old node associated from — the takeover finding (C05 takeoverNode) as it shows in reports
                let sig := if ps.tookOver.contains seid && !n.startsWith "4:p" then " sig=takeoverNode" else ""
                fs := fs ++ [s!"C10 the Session Report Request for session {hexN seid} (node {n}) went to p{s.peer}; the node that owns the session is at p{w}{sig}"]
                if lookD s.f "dldr" "-" != "-" then
                  fs := fs ++ [s!"C13 the downlink-data notification of session {hexN seid} (node {n}) was raised towards p{s.peer}; the SMF that owns the session is at p{w}{sig}"]
    return fs
  let tookOver' := (if isTakeover then seid :: ps.tookOver else ps.tookOver).filter fun u => (d.live u).isSome
  let dark' : List Nat := ((own'.filter (·.2 == "4:p7")).map (·.1) ++ ps.dark).eraseDups.filter fun u => (d.live u).isSome
  -- C13 (external): a packet the data plane hands up for buffering (BUFF set, payload not empty) is held for its PDR — whether
  -- or not the notification that goes with it can be delivered — until the queue is full (512)
  let c13fails : List String := Id.run do
    let mut fs : List String := []
    if typ == "report" then
      match prev.live seid, d.live seid with
      | some ds0, some ds1 =>
        -- (the data plane hands up one packet per notification; notifications carrying several downlink-data reports are left
        --  to the lock-step comparison)
        let items0 := (listOf' (lookD m "items" "_"))
        let items := if (items0.filter (·.startsWith "d:")).length == 1 then items0 else []
        let pdrs := (items.filterMap fun t => match splitOn1 t ':' with
          | ["d", p, a, pk] => if hexD a / 4 % 2 == 1 && pk != "-" && pk != "" then some (natD p) else none
          | _ => none)
        for p in pdrs.eraseDups do
          let n := (pdrs.filter (· == p)).length
          let before := ((ds0.qs.find? (·.1 == p)).map (·.2)).getD 0
          let after := ((ds1.qs.find? (·.1 == p)).map (·.2)).getD 0
          if after != min 512 (before + n) then
            fs := fs ++ [s!"C13 {n} packet(s) handed up for buffering for PDR {p} of session {hexN seid} (held before: {before}); held afterwards: {after} — each is due to be held until the queue is full, whether or not the notification could be delivered"]
      | _, _ => pure ()
    return fs
  -- C10, specification side: method / information of each URR, from the requests
  let umeth' : List ((Nat × Nat) × (Bool × Bool × Bool)) := Id.run do
    let mut t := ps.umeth
    if typ == "recv" && !isDup then
      if kind == "est" then
        for s in sends do
          if s.kind == "estrsp" && lookD s.f "cause" "" == "1" then
            let up := hexD ((splitOn1 (lookD s.f "fseid" "-") '/').headD "0")
            t := t.filter (·.1.1 != up)
            for ie in parseUrrRules (lookD m "urr" "_") do
              match ie.id with
              | some i => t := ((up, i), ((ie.meth.getD (false, false)).1, (ie.meth.getD (false, false)).2, ie.mnop.getD false)) :: t.filter (·.1 != (up, i))
              | none => pure ()
      if kind == "mod" && (prev.live seid).isSome then
        for ie in parseUrrRules (lookD m "curr" "_") do
          match ie.id with
          | some i => t := ((seid, i), ((ie.meth.getD (false, false)).1, (ie.meth.getD (false, false)).2, ie.mnop.getD false)) :: t.filter (·.1 != (seid, i))
          | none => pure ()
        for ie in parseUrrRules (lookD m "uurr" "_") do
          match ie.id with
          | some i =>
            match t.find? (·.1 == (seid, i)) with
            | some (_, (dd, vv, mm)) =>
              let (dd, vv) := match ie.meth with
                | some (a, b) => (a, b)
                | none => (dd, vv)
              let mm := ie.mnop.getD mm
              t := ((seid, i), (dd, vv, mm)) :: t.filter (·.1 != (seid, i))
            | none => pure ()
          | none => pure ()
    -- sessions that are gone
    t := t.filter fun e => (d.live e.1.1).isSome
    return t
  let hadTakeover' := ps.hadTakeover || isTakeover
  let fails := fails ++ c11fails ++ c12fails ++ c10fails ++ c10dest ++ c05fails ++ c13fails
  -- bookkeeping for the next event
  let cache' := if typ == "recv" && kind ∈ ["hb", "assoc", "est", "mod", "del", "other"] && !isDup then
      let rsp := (sends.filter fun s => s.kind != "srreq" && s.peer == peer).map (·.raw)
      match rsp with
      | r :: _ => ((peer, seq), r) :: ps.cache.filter (·.1 != (peer, seq))
      | [] => ps.cache.filter (·.1 != (peer, seq))
    else if typ == "tmo" && lookD m "k" "" == "rx" then ps.cache.filter (·.1 != (peer, seq))
    else ps.cache
  let newReqs := if typ == "tmo" then [] else
    (sends.filter (·.kind == "srreq")).map fun s => ((s.peer, natD (lookD s.f "seq" "0")), (s.raw, hexD (lookD s.f "seid" "0")))
  let newRep := if typ == "report" then
      (sends.filter (·.kind == "srreq")).map fun s => ((s.peer, natD (lookD s.f "seq" "0")), seid) else []
  let repOf0 := if typ == "recv" && (kind == "srrsp" || kind == "orsp") then ps.repOf.filter (·.1 != (peer, seq)) else ps.repOf
  let repOf1 := (if typ == "tmo" && lookD m "k" "" == "tx" && !(d.tx.any fun t => t.1 == s!"p{peer}-{seq}")
    then repOf0.filter (·.1 != (peer, seq)) else repOf0) ++ newRep
  let outst0 := if typ == "recv" && (kind == "srrsp" || kind == "orsp") then ps.outst.filter (·.1 != (peer, seq)) else ps.outst
  let outst1 := if typ == "tmo" && lookD m "k" "" == "tx" && !(d.tx.any fun t => t.1 == s!"p{peer}-{seq}")
    then outst0.filter (·.1 != (peer, seq)) else outst0
  ({ ps with prev := d, cache := cache', outst := outst1 ++ newReqs, nextSeqn := seq1, c12 := c12', own := own', hadTakeover := hadTakeover', taken := taken', assocPeer := assocPeer', repOf := repOf1, tookOver := tookOver', umeth := umeth', dark := dark' }, fails)

end UpfVerif.Driver.CtlProps
