import UpfVerif.Driver.Util
import UpfVerif.Model.Config
import UpfVerif.Spec.ConfigSpec
/- driver for the S-config stream: abstract documents → M-Config verdicts; C20 predicates against Spec.ConfigSpec -/
namespace UpfVerif.Driver.ConfigD
open UpfVerif UpfVerif.Driver UpfVerif.Config UpfVerif.ConfigSpec

def fv (s : String) : Option FV :=
  match s with
  | "A" => some .absent | "E" => some .empty | "B" => some .bad | "G" => some .good | "T" => some .mistyped
  | _ => none

/-- `k=c` pairs separated by `sep` → lookup -/
def kvs (s : String) (sep : Char) : List (String × String) :=
  (splitOn1 s sep).filterMap fun t => match splitOn1 t '=' with
    | [k, v] => some (k, v)
    | _ => none

def get (m : List (String × String)) (k : String) : Option FV := (m.lookup k).bind fv

/-- a section token: `A`, `N`, `T` or `{…}` -/
def sec {α : Type} (v : String) (inner : String → Option α) : Option (Sec α) :=
  if v == "A" then some .absent else if v == "N" then some .null else if v == "T" then some .mistyped
  else if v.startsWith "{" && v.endsWith "}" then (inner ((v.drop 1).dropEnd 1).toString).map .present
  else none

def lst {α : Type} (v : String) (inner : String → Option α) : Option (Sec (List α)) :=
  if v == "A" then some .absent else if v == "N" then some .null else if v == "T" then some .mistyped
  else if v == "[]" then some (.present [])
  else if v.startsWith "[" && v.endsWith "]" then
    ((splitOn1 ((v.drop 1).dropEnd 1).toString '|').mapM inner).map .present
  else none

def ifE (s : String) : Option IfE := do
  let m := kvs s '.'
  pure { addr := ← get m "addr", type := ← get m "type", name := ← get m "name", ifname := ← get m "ifname", mtu := ← get m "mtu" }

def dnnE (s : String) : Option DnnE := do
  let m := kvs s '.'
  pure { dnn := ← get m "dnn", cidr := ← get m "cidr", natif := ← get m "natifname" }

/-- split `k=v` at the first '=' (values contain '=') -/
def cut1 (t : String) : Option (String × String) :=
  match splitOn1 t '=' with
  | k :: rest@(_ :: _) => some (k, String.intercalate "=" rest)
  | _ => none

/-- the gtpu section's inner text: `forwarder=c,ifList=…` (the list contains no comma) -/
def gtpuD (s : String) : Option GtpuD := do
  let parts := (splitOn1 s ',').filterMap cut1
  let fw ← (parts.lookup "forwarder").bind fv
  let il ← (parts.lookup "ifList").bind fun v => lst v ifE
  pure { forwarder := fw, ifList := il }

def parseDoc (args : List String) : Option Doc := do
  let m := args.filterMap cut1
  let version ← (m.lookup "version").bind fv
  let description ← (m.lookup "description").bind fv
  let pfcp ← (m.lookup "pfcp").bind fun v => sec v fun s => do
    let k := kvs s ','
    pure ({ addr := ← get k "addr", nodeID := ← get k "nodeID", retrans := ← get k "retransTimeout", maxRetrans := ← get k "maxRetrans" } : PfcpD)
  let gtpu ← (m.lookup "gtpu").bind fun v => sec v gtpuD
  let dnnList ← (m.lookup "dnnList").bind fun v => lst v dnnE
  let logger ← (m.lookup "logger").bind fun v => sec v fun s => do
    let k := kvs s ','
    pure ({ enable := ← get k "enable", level := ← get k "level", reportCaller := ← get k "reportCaller" } : LoggerD)
  let res ← m.lookup "resolves"
  pure { version, description, pfcp, gtpu, dnnList, logger, resolves := res == "1" }

def parseVersion (tok : String) : Option (Option (List Nat)) :=
  if tok.startsWith "raw:" then some none
  else ((splitOn1 tok '.').mapM String.toNat?).map some

def eval (fn : String) (args : List String) (impl : String) : Option Verdict := do
  match fn with
  | "cfg.start" =>
    let d ← parseDoc args
    let read := readConfigOK Gen.configFields d
    let model := if read then s!"read=ok drv={if driverPreOK d then "open" else "pre"} vals=same" else "read=err drv=- vals=-"
    -- the property, against the specification: accepted (read ok and the driver reached) iff acceptable; values unchanged
    let implAccepted := impl.startsWith "read=ok drv=open" || impl.startsWith "read=ok drv=started"
    let fails :=
      (if implAccepted && !acceptable d then
         ["C20 a configuration the specification rejects was accepted at start-up (" ++ impl ++ ")"] else []) ++
      (if !implAccepted && acceptable d then
         ["C20 a valid configuration was refused at start-up (" ++ impl ++ ")"] else []) ++
      (if (impl.splitOn "drv=crash").length > 1 then
         ["C20 start-up crashed instead of returning an error (" ++ impl ++ ")"] else []) ++
      (if impl.startsWith "read=ok" && !(impl.endsWith "vals=same") then
         ["C20 an accepted value does not appear unchanged in the running configuration (" ++ impl ++ ")"] else [])
    pure { model := model, propFails := fails }
  | "cfg.version" =>
    let tok ← args.head?
    let v ← parseVersion tok
    let min := Gen.forwarder.expectedMinGtp5gVersion_segments
    let max := Gen.forwarder.expectedMaxGtp5gVersion_segments
    let ok := match v with
      | none => false
      | some segs => versionOK min max segs
    -- the specification's window, stated without the regenerated bounds
    let want := match v with
      | some [x, y, z] => x == 0 && y == 9 && 5 ≤ z
      | some [x, y] => x == 0 && y == 9 && 5 ≤ 0
      | _ => false
    let got := impl == "ok"
    pure { model := if ok then "ok" else "err",
           propFails := if got == want then [] else
             [s!"C20 gtp5g version {tok}: the forwarder {if got then "starts" else "refuses to start"}, 0.9.5 <= v < 0.10.0 is {want}"] }
  | _ => none

end UpfVerif.Driver.ConfigD
