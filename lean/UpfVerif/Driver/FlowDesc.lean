import UpfVerif.Driver.Util
import UpfVerif.Model.FlowDesc
import UpfVerif.Spec.IPFilterRule
import UpfVerif.Model.Xlate
import UpfVerif.Spec.Rules
import UpfVerif.Lemmas.Netlink
namespace UpfVerif.Driver
open UpfVerif.FlowDesc

def bytesHexOfNats (l : List Nat) : String := Bytes.toHex (l.map (BitVec.ofNat 8))

def portsShow (ps : List (List Nat)) : String :=
  if ps.isEmpty then "_" else
  String.intercalate "," (ps.map fun p => match p with
    | [a] => toString a
    | [a, b] => s!"{a}-{b}"
    | _ => "?")

def fdShow (f : FlowDesc) : String :=
  s!"{String.ofList f.dir} {f.proto} {bytesHexOfNats f.src.ip}/{bytesHexOfNats f.src.mask} " ++
  s!"{bytesHexOfNats f.dst.ip}/{bytesHexOfNats f.dst.mask} {portsShow f.sports} {portsShow f.dports}"

/-- `T fd.parse <hex> = …` -/
def evalFlowDesc (args : List String) (impl : String) : Option Verdict := do
  match args with
  | [h] =>
    let bs ← parseDash h
    let s : Str := bs.map fun b => Char.ofNat b.toNat
    let fails := if impl == "panic" then ["C16 ParseFlowDesc faulted on this input"] else []
    if inDomain s then
      let model := match parseFlowDesc s with
        | some f => fdShow f
        | none => "err"
      pure { model, propFails := fails }
    else
      -- outside the modelled domain (IPv6 literals, non-ASCII): only "no fault" is claimed
      pure { model := impl, propFails := fails }
  | _ => none

/-! ### `T fd.rule <hex> <abstract syntax> = …`: the specification's verdict for a rule of the grammar -/
open UpfVerif.Spec.IPFilter in
def numeralOf (s : String) : Option Numeral :=
  let ds : List (Fin 10) := s.toList.filterMap fun c =>
    if '0' ≤ c ∧ c ≤ '9' then some (Fin.ofNat 10 (c.toNat - 48)) else none
  if h : ds ≠ [] ∧ ds.length = s.length then some ⟨ds, h.1⟩ else none

open UpfVerif.Spec.IPFilter in
def addrOf (s : String) : Option Addr :=
  if s == "any" then some .any else if s == "assigned" then some .assigned else
  let (ipS, lenS) := match splitOn1 s '/' with
    | [a, l] => (a, some l)
    | _ => (s, none)
  match (splitOn1 ipS '.').mapM String.toNat? with
  | some [a, b, c, d] =>
    if h : a < 256 ∧ b < 256 ∧ c < 256 ∧ d < 256 then
      match lenS with
      | none => some (.host ⟨a, h.1⟩ ⟨b, h.2.1⟩ ⟨c, h.2.2.1⟩ ⟨d, h.2.2.2⟩)
      | some l => match l.toNat? with
        | some n => if hn : n < 33 then some (.net ⟨a, h.1⟩ ⟨b, h.2.1⟩ ⟨c, h.2.2.1⟩ ⟨d, h.2.2.2⟩ ⟨n, hn⟩) else none
        | none => none
    else none
  | _ => none

open UpfVerif.Spec.IPFilter in
def portsOf (s : String) : Option (List PortItem) :=
  if s == "-" then some [] else
  (splitOn1 s ';').mapM fun it => match splitOn1 it '-' with
    | [a] => (numeralOf a).map .one
    | [a, b] => do pure (.range (← numeralOf a) (← numeralOf b))
    | _ => none

open UpfVerif.Spec.IPFilter in
def ruleOf (abs : String) : Option Rule :=
  match splitOn1 abs ',' with
  | [d, p, s, sp, t, dp] => do
    let proto ← if p == "ip" then some none else (numeralOf p).map some
    pure { dirIn := d == "in", proto := proto, src := ← addrOf s, sports := ← portsOf sp, dst := ← addrOf t, dports := ← portsOf dp }
  | _ => none

open UpfVerif.Spec.IPFilter in
def evalFlowRule (args : List String) (impl : String) : Option Verdict := do
  match args with
  | [h, abs] =>
    let bs ← parseDash h
    let s : Str := bs.map fun b => Char.ofNat b.toNat
    let r ← ruleOf abs
    -- the line's string really is a rendering of the rule: its white-space separated tokens are the rule's tokens
    if fields s != r.tokens then none else
    let want := fdShow r.denote
    let model := match parseFlowDesc s with
      | some f => fdShow f
      | none => "err"
    pure { model := model,
           propFails := if impl == want then [] else
             [s!"C16 the flow description \"{String.ofList s}\" (a rule of the supported grammar) is translated to [{impl}], it denotes [{want}]"] }
  | _ => none

/-! ### `T fd.pack <hex> <abstract syntax> <swap> = <hex of the attribute list>`: the packed form handed to the data plane,
     read back by the independent reader of the gtp5g rule format, must be the filter the rule denotes -/
open UpfVerif.Spec.IPFilter in
def evalFlowPack (args : List String) (impl : String) : Option Verdict := do
  match args with
  | [h, abs, sw] =>
    let bs ← parseDash h
    let s : Str := bs.map fun b => Char.ofNat b.toNat
    let r ← ruleOf abs
    if fields s != r.tokens then none else
    let swap := sw == "1"
    let want := Rules.expectFlow r.denote swap
    let model := match parseFlowDesc s with
      | some f => Bytes.toHex (Netlink.encList (Xlate.flowDescAttrs f swap))
      | none => "err"
    let got := (parseDash impl).bind fun b => (Netlink.decodeTree b).map Gtp5gRead.readFlow
    pure { model := model,
           propFails := if got == some want then [] else
             [s!"C16 the packed form of \"{String.ofList s}\" ({if swap then "uplink: source and destination exchanged" else "downlink"}) " ++
              s!"decodes to {reprStr got}; the rule denotes {reprStr want}"] }
  | _ => none

end UpfVerif.Driver
