import UpfVerif.Driver.Util
import UpfVerif.Model.FlowDesc
namespace UpfVerif.Driver
open UpfVerif.FlowDesc

def bytesHexOfNats (l : List Nat) : String := Bytes.toHex (l.map (BitVec.ofNat 8))

def portsShow (ps : List (List Nat)) : String :=
  if ps.isEmpty then "_" else
  String.intercalate "," (ps.map fun p => match p with
    | [a] => toString a
    | [a, b] => s!"{a}-{b}"
    | _ => "?")

def fdShow (f : FlowDesc) : String :=
  s!"{String.ofList f.dir} {f.proto} {bytesHexOfNats f.src.ip}/{bytesHexOfNats f.src.mask} " ++
  s!"{bytesHexOfNats f.dst.ip}/{bytesHexOfNats f.dst.mask} {portsShow f.sports} {portsShow f.dports}"

/-- `T fd.parse <hex> = …` -/
def evalFlowDesc (args : List String) (impl : String) : Option Verdict := do
  match args with
  | [h] =>
    let bs ← parseDash h
    let s : Str := bs.map fun b => Char.ofNat b.toNat
    let fails := if impl == "panic" then ["C16 ParseFlowDesc faulted on this input"] else []
    if inDomain s then
      let model := match parseFlowDesc s with
        | some f => fdShow f
        | none => "err"
      pure { model, propFails := fails }
    else
      -- outside the modelled domain (IPv6 literals, non-ASCII): only "no fault" is claimed
      pure { model := impl, propFails := fails }
  | _ => none

end UpfVerif.Driver
