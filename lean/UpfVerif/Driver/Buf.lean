import UpfVerif.Driver.Util
import UpfVerif.Model.Buf
import UpfVerif.Spec.GtpuRef
/- driver for the S-full buffering stream: runs M-Buf on the event lines; C13 predicates on the datagrams the
   implementation emitted (decoded by the independent GTP-U reference decoder) and on its Downlink Data Reports -/
namespace UpfVerif.Driver.BufD
open UpfVerif UpfVerif.Driver UpfVerif.Buf

def natHex (n : Nat) : String := String.mk (Nat.toDigits 16 n)

def field (impl key : String) : Option String :=
  ((impl.split (· == ' ')).toList.map (·.toString)).findSome? fun w =>
    if w.startsWith (key ++ "=") then some (w.drop (key.length + 1)).toString else none

def qShow (st : St) (up : Nat) : String :=
  match alGet st.sess up with
  | none => "gone"
  | some s =>
    if s.q.isEmpty then "-" else
    String.intercalate "," ((s.q.mergeSort (fun a b => a.1 ≤ b.1)).map fun e => s!"{e.1}/{e.2.length}")

/-- the FARs the data plane holds for the session, as the harness prints them -/
def kShow (st : St) (up : Nat) : String :=
  match alGet st.sess up with
  | none => "-"
  | some s =>
    if s.fars.isEmpty then "-" else
    String.intercalate "," ((s.fars.mergeSort (fun a b => a.1 ≤ b.1)).map fun e =>
      s!"{e.1}:{e.2.action}:{match e.2.teid with | some t => toString t | none => "-"}")

def listShow (l : List String) : String := if l.isEmpty then "-" else String.intercalate "," l

def aaWordOf (b : Bytes) : Nat :=
  match b with
  | [] => 0
  | [b0] => b0.toNat
  | b0 :: b1 :: _ => b0.toNat + 256 * b1.toNat

def optNat (s : String) : Option (Option Nat) := if s == "-" then some none else s.toNat?.map some

def parseFars (s : String) : Option (List (Nat × FarK)) :=
  (splitOn1 s '|').mapM fun t => match splitOn1 t ':' with
    | [i, aa, te] => do pure (← i.toNat?, { action := aaWordOf (← parseHexBytes aa), teid := ← optNat te })
    | _ => none

def parseQers (s : String) : Option (List (Nat × Nat)) :=
  if s == "-" then some [] else
  (splitOn1 s '|').mapM fun t => match splitOn1 t ':' with
    | [i, q] => do pure (← i.toNat?, ← q.toNat?)
    | _ => none

def parseIds (s : String) : Option (List Nat) :=
  if s == "-" then some [] else (splitOn1 s '+').mapM String.toNat?

def parsePdrs (s : String) : Option (List (Nat × PdrK)) :=
  (splitOn1 s '|').mapM fun t => match splitOn1 t ':' with
    | [i, f, qs] => do pure (← i.toNat?, { far := ← f.toNat?, qers := ← parseIds qs })
    | _ => none

/-- the k-th copy of a burst: the payload's first two octets count up -/
def copyOf (pay : Bytes) (k : Nat) : Bytes :=
  match pay with
  | [] => []
  | [_] => [BitVec.ofNat 8 k]
  | _ :: _ :: rest => BitVec.ofNat 8 k :: BitVec.ofNat 8 (k / 256) :: rest

def causeShow (ok : Bool) : String := if ok then "1" else "65"

/-- what the property demands of the datagrams of one release, against the implementation's own bytes -/
def checkGtpu (what : String) (impl : String) (want : List Bytes) : List String :=
  match field impl "gtpu" with
  | none => []
  | some g =>
    let got := if g == "-" then some [] else (splitOn1 g ',').mapM parseHexBytes
    match got with
    | none => [s!"C13 {what}: unparsable datagram list"]
    | some got =>
      -- C14: whatever else holds, every datagram that leaves must read as a G-PDU under the reference decoder
      -- well-formed, whatever it carries: version 1, protocol type GTP, message type 255 (G-PDU), the length field counts
      -- exactly the octets after the mandatory 8-octet header, the extension chain (if any) ends
      let wf (b : Bytes) : Bool := match GtpuRef.decode b with
        | some p => p.version == 1 && p.pt && p.msgType.toNat == 255 && p.length + 8 == b.length
        | none => false
      let illFormed := (got.zipIdx.filter fun (b, _) => !wf b).map fun (b, i) =>
        s!"C14 {what}: datagram {i} is not a well-formed GTPv1-U G-PDU (TS 29.281 reference decoder rejects it): {Bytes.toHex (b.take 24)}…"
      illFormed ++
      if got == want then [] else
      let decoded := got.map fun b => (GtpuRef.decode b).map fun p =>
        (p.teid, (p.exts.filterMap GtpuRef.pduSessInfo).map (·.qfi), p.payload.length)
      [s!"C13 {what}: {got.length} datagram(s) reached the tunnel endpoint, the packets buffered for the PDRs of this FAR call for {want.length} " ++
       s!"(in arrival order, once each, with the FAR's TEID and the session's QFI); decoded (teid, QFI, payload length): {reprStr decoded}"]

def eval (st : St) (fn : String) (args : List String) (impl : String) : Option (St × Verdict) := do
  match fn, args with
  | "buf.reset", [] => pure ({}, { model := "ok" })
  | "buf.est", [cp, f, q, p] =>
    let cp ← parseHexNat cp
    let fars ← parseFars ((f.drop 4).toString)
    let qers ← parseQers ((q.drop 4).toString)
    let pdrs ← parsePdrs ((p.drop 4).toString)
    let (st', up) := establish st cp fars qers pdrs
    pure (st', { model := natHex up })
  | "buf.pkt", up :: pdr :: act :: pay :: n :: _ =>
    let up ← parseHexNat up
    let pdr ← pdr.toNat?
    let act ← parseHexNat act
    let pay ← parseDash pay
    let n ← ((n.drop 2).toString).toNat?
    let (st', ds) := (List.range n).foldl (fun (acc : St × List String) k =>
      let (s', d) := notify acc.1 up pdr act (copyOf pay k)
      (s', if d then acc.2 ++ [match alGet acc.1.sess up with | some s => s!"{natHex s.cp}/{pdr}" | none => "?"] else acc.2)) (st, [])
    let want := s!"dldr={listShow ds} q={qShow st' up}"
    let fails := if field impl "dldr" == some (listShow ds) then [] else
      [s!"C13 notification: Downlink Data Reports sent are [{(field impl "dldr").getD "?"}], the NOCP flag of the {n} notification(s) calls for [{listShow ds}]"]
    pure (st', { model := want, propFails := fails })
  | "buf.far", [up, far, aa, te, _ord] =>
    let up ← parseHexNat up
    let far ← far.toNat?
    let aa ← if aa == "-" then some none else (parseHexBytes aa).map fun b => some (aaWordOf b)
    let te ← optNat te
    let (st', ok, out) := updateFar st up far aa te
    let kWant := kShow st' up
    let kFail := match field impl "k" with
      | some k => if k == kWant then [] else
          [s!"C02 Update FAR {far} of session {natHex up}: the data plane now holds FARs [{k}], the IE's content under its own (SEID, FAR id) calls for [{kWant}] (id:apply-action:TEID) — the update reached another rule, or not the addressed one"]
      | none => []
    pure (st', { model := s!"{causeShow ok} gtpu={listShow (out.map Bytes.toHex)} q={qShow st' up} k={kWant}",
                 propFails := checkGtpu s!"Update FAR {far} of session {natHex up}" impl out ++ kFail })
  | "buf.rmpdr", [up, pdr] =>
    let up ← parseHexNat up
    let had : Bool := match alGet st.sess up with
      | some ss => ss.pdrIds.contains (pdr.toNat?.getD 0)
      | none => false
    let (st', ok) := removePdr st up (← pdr.toNat?)
    -- C13: what was buffered for a removed PDR is gone with it (a PDR created later under the same id must not release it)
    let qf := ((impl.split (· == ' ')).toList.map (·.toString)).find? (·.startsWith "q=")
    let left : Bool := match qf with
      | some f => ((f.drop 2).toString.splitOn ",").any fun e => match e.splitOn "/" with
          | [i, n] => i == pdr && n != "0"
          | _ => false
      | none => false
    pure (st', { model := s!"{causeShow ok} q={qShow st' up}",
                 propFails := if impl.startsWith "1 " && left && had then
                   [s!"C13 Remove PDR {pdr} of session {natHex up} was accepted, yet packets buffered for that PDR are still held ({qf.getD ""}): a PDR created later under the same id would release them"] else [] })
  | "buf.addpdr", [up, pdr, far, qs] =>
    let up ← parseHexNat up
    let (st', ok) := addPdr st up (← pdr.toNat?) (← far.toNat?) (← parseIds qs)
    pure (st', { model := s!"{causeShow ok} q={qShow st' up}" })
  | "buf.del", [up] =>
    let up ← parseHexNat up
    let (st', ok) := delete st up
    pure (st', { model := s!"{causeShow ok} gtpu=-", propFails := checkGtpu s!"deletion of session {natHex up}" impl [] })
  | _, _ => none

end UpfVerif.Driver.BufD
