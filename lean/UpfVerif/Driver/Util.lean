import UpfVerif.Basic
/- driver-side helpers (parsing of the line protocol); executes definitions, proves nothing -/
namespace UpfVerif.Driver

/-- result of evaluating one `T` line: what the model says the implementation must have
    printed, and the property-predicate failures on what the implementation did print. -/
structure Verdict where
  model : String
  propFails : List String := []

def parseDash (s : String) : Option Bytes :=
  if s == "-" then some [] else parseHexBytes s

def showDash (b : Bytes) : String :=
  if b.isEmpty then "-" else Bytes.toHex b

def splitOn1 (s : String) (c : Char) : List String :=
  (s.split (· == c)).toList.map (·.toString)

end UpfVerif.Driver
