import UpfVerif.Driver.Util
import UpfVerif.Spec.ConcRules
/- driver for the S-stop / wedge streams and the run-time evaluation of the regenerated concurrency facts (C17, C18) -/
namespace UpfVerif.Driver.ConcD
open UpfVerif UpfVerif.Driver UpfVerif.ConcRules UpfVerif.Gen.Conc

def short (r : String) : String :=
  if r == "pfcp.PfcpServer.main" then "main" else
  if r == "perio.Server.Serve" then "perio" else
  if r == "perio.PERIOGroup.newTicker$1" then "ticker" else r

def eval (fn : String) (args : List String) (impl : String) : Option Verdict := do
  match fn with
  | "stop.after" =>
    let what ← args.head?
    pure { model := "ok",
           propFails := if impl == "ok" then [] else
             [s!"C17 a {what} notification after the event loop has ended: {impl} (must be discarded without a fault)"] }
  | "stop.burst" =>
    pure { model := "ok",
           propFails := if impl == "ok" then [] else
             [s!"C17 pipelined requests from concurrent peers ({String.intercalate " " args}): {impl} — every request must be handled exactly once and answered with its own sequence number"] }
  | "stop.stress" =>
    let want := "races=0 crash=0 exited=1"
    pure { model := want,
           propFails := if impl == want then [] else
             [s!"C17 stress with Stop (child seed {args.headD "?"}, {args.getD 1 "?"}): {impl} — a data race, a crash or a goroutine that did not end"] }
  | "conc.facts" =>
    -- the regenerated facts, evaluated now: ownership violations (C17) and blocking cycles (C18)
    let v := ownerViolations.map fun a =>
      s!"C17 ownership: {a.fn} (reachable from goroutine root {a.root}) performs {a.kind} on {a.typ}.{a.field} outside the owner goroutine"
    let c := cycleEdges.map fun e =>
      s!"C18 blocking cycle: {e.1} waits on {e.2.1} for {e.2.2}, which can in turn be waiting for the former sig=cyc:{short e.1}>{(e.2.1.splitOn ".").getLastD ""}>{short e.2.2}"
    pure { model := "ok", propFails := v ++ c }
  | "wedge.run" =>
    -- the known wedge needs more timer events in one loop turn than the periodic server's queue holds AND more sessions in
    -- one tick than the report queue holds; a wedge below either size is something else
    let num (k : String) : Nat := (args.findSome? fun a => if a.startsWith (k ++ "=") then ((a.drop (k.length + 1)).toString).toNat? else none).getD 0
    let evtCap := (chanCaps.lookup "perio.Server.evtCh").getD 0
    let srCap := (chanCaps.lookup "pfcp.PfcpServer.srCh").getD 0
    let known := num "sessions" * num "urrs" > evtCap && num "sessions" > srCap
    pure { model := "alive",
           propFails := if impl == "alive" then [] else
             [s!"C18 burst ({String.intercalate " " args}): the UPF stopped answering ({impl}) sig={if known then "wedge:perioLoop" else "wedge:below-queue-sizes"}"] }
  | "wedge.create" =>
    -- one timer event per created URR: as long as the establishment creates no more periodic URRs than the periodic server's
    -- queue holds, the loop finishes its turn whatever the tick does meanwhile
    let num (k : String) : Nat := (args.findSome? fun a => if a.startsWith (k ++ "=") then ((a.drop (k.length + 1)).toString).toNat? else none).getD 0
    let evtCap := (chanCaps.lookup "perio.Server.evtCh").getD 0
    let known := num "urrs" > evtCap
    pure { model := "alive",
           propFails := if impl == "alive" then [] else
             [s!"C18 establishment of {num "urrs"} periodic URRs while a tick reports {num "sessions"} sessions ({String.intercalate " " args}): the UPF stopped answering ({impl}) sig={if known then "wedge:perioLoop" else "wedge:create-below-queue-size"}"] }
  | "wedge.tickrace" =>
    -- one session, a handful of events: far below every queue size, nothing here may stop the loop
    pure { model := "alive",
           propFails := if impl == "alive" then [] else
             [s!"C18 a tick still queued when its period's last URR disappeared ({String.intercalate " " args}): afterwards the registration of the next periodic URR never returned and the UPF stopped answering ({impl}) sig=wedge:staleTick"] }
  | "wedge.realtick" =>
    pure { model := "alive",
           propFails := if impl == "alive" then [] else
             [s!"C18 a tick of the real ticker expired while the periodic server was busy and its period's last URR was removed meanwhile ({String.intercalate " " args}): afterwards " ++
              (if impl == "noperiodic" then "no periodic usage report is forwarded any more (the periodic server has stopped serving)" else "the UPF stopped answering") ++ s!" ({impl}) sig=wedge:realTick"] }
  | _ => none

end UpfVerif.Driver.ConcD
