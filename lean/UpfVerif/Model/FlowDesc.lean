import UpfVerif.Basic
/-
M-FlowDesc: model of `internal/forwarder/flowdesc.go` (ParseFlowDesc, ParseFlowDescIPNet, ParseFlowDescPorts) and of
the Go library functions it relies on, for ASCII input without ':' / '%' inside address tokens (IPv6 literals are
outside the model):
  strings.Fields (ASCII white space), strings.Split(",") / SplitN("-", 2), strconv.ParseUint(s, 10, 8|16),
  net.ParseCIDR / net.ParseIP for dotted-quad IPv4 (netip.parseIPv4Fields, net.dtoi, CIDRMask, IP.Mask).
Strings are `List Char`.
-/
namespace UpfVerif.FlowDesc

abbrev Str := List Char

/-- Go's ASCII white space (`strings.Fields`, asciiSpace table) -/
def isSpace (c : Char) : Bool := c == ' ' || c == '\t' || c == '\n' || c == '\x0b' || c == '\x0c' || c == '\r'

/-- `strings.Fields` on ASCII input: maximal runs of non-space characters -/
def fieldsAux : Str → Str → List Str
  | [], cur => if cur.isEmpty then [] else [cur.reverse]
  | c :: rest, cur =>
    if isSpace c then
      if cur.isEmpty then fieldsAux rest [] else cur.reverse :: fieldsAux rest []
    else fieldsAux rest (c :: cur)

def fields (s : Str) : List Str := fieldsAux s []

def isDigit (c : Char) : Bool := '0' ≤ c && c ≤ '9'
def digitVal (c : Char) : Nat := c.toNat - 48

/-- `strconv.ParseUint(s, 10, bits)`: digits only, non-empty, value below 2^bits (any length, leading zeros allowed) -/
def parseUint (s : Str) (bits : Nat) : Option Nat :=
  if s.isEmpty then none
  else if s.all isDigit then
    let v := s.foldl (fun acc c => acc * 10 + digitVal c) 0
    if v < 2 ^ bits then some v else none
  else none

/-- split at every occurrence of `sep` (`strings.Split`) -/
def splitOn (sep : Char) : Str → Str → List Str
  | [], cur => [cur.reverse]
  | c :: rest, cur => if c == sep then cur.reverse :: splitOn sep rest [] else splitOn sep rest (c :: cur)

/-- `strings.SplitN(s, "-", 2)`: at most one cut, at the first dash -/
def cutDash : Str → Str → Str × Option Str
  | [], cur => (cur.reverse, none)
  | c :: rest, cur => if c == '-' then (cur.reverse, some rest) else cutDash rest (c :: cur)

/-- `ParseFlowDescPorts`: each item a port or a range -/
def parsePorts (s : Str) : Option (List (List Nat)) :=
  (splitOn ',' s []).mapM fun item =>
    match cutDash item [] with
    | (a, none) => (parseUint a 16).map fun v => [v]
    | (a, some b) =>
      match parseUint a 16, parseUint b 16 with
      | some x, some y => some [x, y]
      | _, _ => none

/-- `netip.parseIPv4Fields`: state = (value, field index, digits in field, previous char was a dot), first flag -/
def ipv4Fields : Str → Nat → Nat → Nat → Bool → List Nat → Bool → Option (List Nat)
  | [], val, pos, _, _, fs, _ => if pos < 3 then none else some (fs ++ [val])
  | c :: rest, val, pos, digLen, prevDot, fs, first =>
    if isDigit c then
      if digLen == 1 && val == 0 then none
      else
        let v := val * 10 + digitVal c
        if v > 255 then none else ipv4Fields rest v pos (digLen + 1) false fs false
    else if c == '.' then
      if first || rest.isEmpty || prevDot then none
      else if pos == 3 then none
      else ipv4Fields rest 0 (pos + 1) 0 true (fs ++ [val]) false
    else none

def parseIPv4 (s : Str) : Option (List Nat) := ipv4Fields s 0 0 0 false [] true

/-- `netip.ParseAddr` restricted to what the model covers: the first of '.', ':', '%' decides; only '.' is modelled -/
inductive AddrClass | v4 | v6 | none
deriving DecidableEq, Repr

def addrClass : Str → AddrClass
  | [] => .none
  | c :: rest => if c == '.' then .v4 else if c == ':' || c == '%' then .v6 else addrClass rest

/-- `net.dtoi` + the checks of `ParseCIDR` on the prefix length of an IPv4 address -/
def parsePrefixLen (s : Str) : Option Nat :=
  if s.isEmpty then none
  else if s.all isDigit then
    -- `big` = 0xFFFFFF: dtoi gives up there; anything above 32 is rejected anyway
    let v := s.foldl (fun acc c => if acc ≥ 0xFFFFFF then acc else acc * 10 + digitVal c) 0
    if v ≤ 32 then some v else none
  else none

/-- `CIDRMask(n, 32)` as four octets -/
def cidrMask (n : Nat) : List Nat :=
  (List.range 4).map fun i =>
    let bits := if n ≥ 8 * (i + 1) then 8 else if n ≤ 8 * i then 0 else n - 8 * i
    256 - 2 ^ (8 - bits)

def cutSlash : Str → Str → Option (Str × Str)
  | [], _ => none
  | c :: rest, cur => if c == '/' then some (cur.reverse, rest) else cutSlash rest (c :: cur)

/-- an address as `ParseFlowDescIPNet` returns it: IP bytes and mask bytes -/
structure IPNet where
  ip : List Nat
  mask : List Nat
deriving DecidableEq, Repr

/-- `ParseFlowDescIPNet` on tokens without ':' / '%' -/
def parseIPNet (s : Str) : Option IPNet :=
  if s == "any".toList || s == "assigned".toList then
    some { ip := List.replicate 16 0, mask := List.replicate 16 0 }
  else
    match cutSlash s [] with
    | some (a, m) =>
      -- net.ParseCIDR; on failure the code falls back to net.ParseIP of the whole token, which fails on '/'
      match (if addrClass a == .v4 then parseIPv4 a else none), parsePrefixLen m with
      | some ip, some n =>
        let mk := cidrMask n
        some { ip := (ip.zip mk).map fun (x, y) => x &&& y, mask := mk }
      | _, _ => none
    | none =>
      match (if addrClass s == .v4 then parseIPv4 s else none) with
      | some ip => some { ip := ip, mask := [255, 255, 255, 255] }
      | none => none

structure FlowDesc where
  dir : Str
  proto : Nat
  src : IPNet
  dst : IPNet
  sports : List (List Nat)
  dports : List (List Nat)
deriving DecidableEq, Repr

/-- `ParseFlowDesc` after `strings.Fields` -/
def parseTokens (toks : List Str) : Option FlowDesc :=
  match toks with
  | act :: dir :: proto :: frm :: src :: rest =>
    if act != "permit".toList then none
    else if dir != "in".toList && dir != "out".toList then none
    else
      match (if proto == "ip".toList then some 255 else parseUint proto 8) with
      | none => none
      | some p =>
        if frm != "from".toList then none else
        match parseIPNet src with
        | none => none
        | some srcNet =>
          -- optional source ports: the next token is tried as a port list
          match rest with
          | [] => none
          | t :: rest1 =>
            let (sports, rest2) := match parsePorts t with
              | some ps => (ps, rest1)
              | none => ([], t :: rest1)
            match rest2 with
            | to :: dst :: rest3 =>
              if to != "to".toList then none else
              match parseIPNet dst with
              | none => none
              | some dstNet =>
                let dports := match rest3 with
                  | t' :: _ => (parsePorts t').getD []
                  | [] => []
                some { dir := dir, proto := p, src := srcNet, dst := dstNet, sports := sports, dports := dports }
            | _ => none
  | _ => none

def parseFlowDesc (s : Str) : Option FlowDesc := parseTokens (fields s)

/-- is the string inside the modelled domain: ASCII, and no ':' / '%' anywhere (IPv6 literals, zones) -/
def inDomain (s : Str) : Bool := s.all fun c => c.toNat < 128 && c != ':' && c != '%'

/-- `convertSlice`: one 32-bit word per item, `lo << 16 | hi` (a single port is its own range) -/
def portWords (ps : List (List Nat)) : List Nat :=
  ps.map fun p => match p with
    | [a] => a * 65536 + a
    | [a, b] => a * 65536 + b
    | _ => 0

end UpfVerif.FlowDesc
