import UpfVerif.Basic
/-
M-FlowDesc: model of `internal/forwarder/flowdesc.go` (ParseFlowDesc, ParseFlowDescIPNet, ParseFlowDescPorts) and of
the Go library functions it relies on, for ASCII input without ':' / '%' inside address tokens (IPv6 literals are
outside the model):
  strings.Fields (ASCII white space), strings.Split(",") / SplitN("-", 2), strconv.ParseUint(s, 10, 8|16),
  net.ParseCIDR / net.ParseIP for dotted-quad IPv4 (netip.parseIPv4Fields, net.dtoi, CIDRMask, IP.Mask).
Strings are `List Char`.
-/
namespace UpfVerif.FlowDesc

abbrev Str := List Char

/-! keywords as explicit character lists (string literals do not reduce well in proofs) -/
def kwPermit : Str := ['p', 'e', 'r', 'm', 'i', 't']
def kwIn : Str := ['i', 'n']
def kwOut : Str := ['o', 'u', 't']
def kwIp : Str := ['i', 'p']
def kwFrom : Str := ['f', 'r', 'o', 'm']
def kwTo : Str := ['t', 'o']
def kwAny : Str := ['a', 'n', 'y']
def kwAssigned : Str := ['a', 's', 's', 'i', 'g', 'n', 'e', 'd']

/-- Go's ASCII white space (`strings.Fields`, asciiSpace table) -/
def isSpace (c : Char) : Bool := c == ' ' || c == '\t' || c == '\n' || c == '\x0b' || c == '\x0c' || c == '\r'

/-- `strings.Fields` on ASCII input: maximal runs of non-space characters -/
def fieldsAux : Str → Str → List Str
  | [], cur => if cur.isEmpty then [] else [cur.reverse]
  | c :: rest, cur =>
    if isSpace c then
      if cur.isEmpty then fieldsAux rest [] else cur.reverse :: fieldsAux rest []
    else fieldsAux rest (c :: cur)

def fields (s : Str) : List Str := fieldsAux s []

def isDigit (c : Char) : Bool := '0' ≤ c && c ≤ '9'
def digitVal (c : Char) : Nat := c.toNat - 48

/-- `strconv.ParseUint(s, 10, bits)`: digits only, non-empty, value below 2^bits (any length, leading zeros allowed) -/
def parseUint (s : Str) (bits : Nat) : Option Nat :=
  if s.isEmpty then none
  else if s.all isDigit then
    let v := s.foldl (fun acc c => acc * 10 + digitVal c) 0
    if v < 2 ^ bits then some v else none
  else none

/-- split at every occurrence of `sep` (`strings.Split`) -/
def splitOn (sep : Char) : Str → Str → List Str
  | [], cur => [cur.reverse]
  | c :: rest, cur => if c == sep then cur.reverse :: splitOn sep rest [] else splitOn sep rest (c :: cur)

/-- `strings.SplitN(s, "-", 2)`: at most one cut, at the first dash -/
def cutDash : Str → Str → Str × Option Str
  | [], cur => (cur.reverse, none)
  | c :: rest, cur => if c == '-' then (cur.reverse, some rest) else cutDash rest (c :: cur)

/-- `ParseFlowDescPorts`: each item a port or a range -/
def parsePorts (s : Str) : Option (List (List Nat)) :=
  (splitOn ',' s []).mapM fun item =>
    match cutDash item [] with
    | (a, none) => (parseUint a 16).map fun v => [v]
    | (a, some b) =>
      match parseUint a 16, parseUint b 16 with
      | some x, some y => some [x, y]
      | _, _ => none

/-- one dotted-quad field as `netip.parseIPv4Fields` accepts it: at least one digit, digits only, no leading zero
    in a multi-digit field, value at most 255 -/
def parseOctet (f : Str) : Option Nat :=
  if f.isEmpty then none
  else if !f.all isDigit then none
  else if f.length > 1 && f.head? == some '0' then none
  else
    let v := f.foldl (fun acc c => acc * 10 + digitVal c) 0
    if v ≤ 255 then some v else none

/-- `netip.parseIPv4`: exactly four fields separated by single dots.  (The library walks the string once, character
    by character; splitting first is an equivalent formulation — checked against the implementation by the
    correspondence stream, which includes leading zeros, empty fields, too few / too many fields, stray characters.) -/
def parseIPv4 (s : Str) : Option (List Nat) :=
  match splitOn '.' s [] with
  | [a, b, c, d] =>
    match parseOctet a, parseOctet b, parseOctet c, parseOctet d with
    | some w, some x, some y, some z => some [w, x, y, z]
    | _, _, _, _ => none
  | _ => none

/-- `netip.ParseAddr` restricted to what the model covers: the first of '.', ':', '%' decides; only '.' is modelled -/
inductive AddrClass | v4 | v6 | none
deriving DecidableEq, Repr

def addrClass : Str → AddrClass
  | [] => .none
  | c :: rest => if c == '.' then .v4 else if c == ':' || c == '%' then .v6 else addrClass rest

/-- `net.dtoi` + the checks of `ParseCIDR` on the prefix length of an IPv4 address -/
def parsePrefixLen (s : Str) : Option Nat :=
  if s.isEmpty then none
  else if s.all isDigit then
    -- `big` = 0xFFFFFF: dtoi gives up there; anything above 32 is rejected anyway
    let v := s.foldl (fun acc c => if acc ≥ 0xFFFFFF then acc else acc * 10 + digitVal c) 0
    if v ≤ 32 then some v else none
  else none

/-- `CIDRMask(n, 32)` as four octets -/
def cidrMask (n : Nat) : List Nat :=
  (List.range 4).map fun i =>
    let bits := if n ≥ 8 * (i + 1) then 8 else if n ≤ 8 * i then 0 else n - 8 * i
    256 - 2 ^ (8 - bits)

def cutSlash : Str → Str → Option (Str × Str)
  | [], _ => none
  | c :: rest, cur => if c == '/' then some (cur.reverse, rest) else cutSlash rest (c :: cur)

/-- an address as `ParseFlowDescIPNet` returns it: IP bytes and mask bytes -/
structure IPNet where
  ip : List Nat
  mask : List Nat
deriving DecidableEq, Repr

/-- `ParseFlowDescIPNet` on tokens without ':' / '%' -/
def parseIPNet (s : Str) : Option IPNet :=
  if s == kwAny || s == kwAssigned then
    some { ip := List.replicate 16 0, mask := List.replicate 16 0 }
  else
    match cutSlash s [] with
    | some (a, m) =>
      -- net.ParseCIDR; on failure the code falls back to net.ParseIP of the whole token, which fails on '/'
      match (if addrClass a == .v4 then parseIPv4 a else none), parsePrefixLen m with
      | some ip, some n =>
        let mk := cidrMask n
        some { ip := (ip.zip mk).map fun (x, y) => x &&& y, mask := mk }
      | _, _ => none
    | none =>
      match (if addrClass s == .v4 then parseIPv4 s else none) with
      | some ip => some { ip := ip, mask := [255, 255, 255, 255] }
      | none => none

structure FlowDesc where
  dir : Str
  proto : Nat
  src : IPNet
  dst : IPNet
  sports : List (List Nat)
  dports : List (List Nat)
deriving DecidableEq, Repr

/-- protocol token: `ip` (any protocol, 0xff) or a decimal number below 256 -/
def parseProto (t : Str) : Option Nat := if t == kwIp then some 255 else parseUint t 8

def validDir (t : Str) : Bool := t == kwIn || t == kwOut

/-- the optional source-port token: the token after the source address is *tried* as a port list -/
def takePorts (t : Str) (rest : List Str) : List (List Nat) × List Str :=
  match parsePorts t with
  | some ps => (ps, rest)
  | none => ([], t :: rest)

/-- the optional destination-port token: whatever follows the destination address is tried as a port list; a token
    that is not one (and anything after it) is ignored -/
def tailPorts : List Str → List (List Nat)
  | t :: _ => (parsePorts t).getD []
  | [] => []

/-- `… [ports] to <address> [ports]` -/
def parseTail : List Str → Option (List (List Nat) × IPNet × List (List Nat))
  | [] => none
  | t :: rest1 =>
    match (takePorts t rest1).2 with
    | to :: dst :: rest3 =>
      if to == kwTo then
        match parseIPNet dst with
        | some d => some ((takePorts t rest1).1, d, tailPorts rest3)
        | none => none
      else none
    | _ => none

/-- `ParseFlowDesc` after `strings.Fields` (every step of the Go function must succeed; the order in which the
    failures would be reported is not modelled) -/
def parseTokens : List Str → Option FlowDesc
  | act :: dir :: proto :: frm :: src :: rest =>
    if act == kwPermit && validDir dir && frm == kwFrom then
      match parseProto proto, parseIPNet src, parseTail rest with
      | some p, some s, some (sp, d, dp) => some { dir := dir, proto := p, src := s, dst := d, sports := sp, dports := dp }
      | _, _, _ => none
    else none
  | _ => none

def parseFlowDesc (s : Str) : Option FlowDesc := parseTokens (fields s)

/-- is the string inside the modelled domain: ASCII, and no ':' / '%' anywhere (IPv6 literals, zones) -/
def inDomain (s : Str) : Bool := s.all fun c => c.toNat < 128 && c != ':' && c != '%'

/-- one item of `convertSlice`: `lo << 16 | hi` (a single port is its own range) -/
def portWord : List Nat → Nat
  | [a] => a * 65536 + a
  | [a, b] => a * 65536 + b
  | _ => 0

/-- `convertSlice`: one 32-bit word per item -/
def portWords (ps : List (List Nat)) : List Nat := ps.map portWord

end UpfVerif.FlowDesc
