import UpfVerif.Model.Gtpu
import UpfVerif.Gen.Consts
/-
M-Buf: buffering and release of downlink packets across the stack —
  `buffnetlink.Server.ServeMsg` (BUFFER multicast → session report), `PfcpServer.ServeReport` (push on BUFF, Downlink Data
  Report on NOCP), `Sess.Push/Pop` (bounded per-PDR queues, `node.go`), `Sess.Close` (queues dropped with the session),
  `Sess.RemovePDR` (the PDR's queue dropped with the PDR), `Gtp5g.applyAction` / `WritePacket` (on Update FAR: read the FAR
  back; if it is buffering, drain the queues of the PDRs related to it, dropping or re-injecting as GTP-U), over the
  data-plane tables the kernel holds (FAR action + outer header creation, PDR → FAR and QER ids, QER → QFI).
Rule creation / removal at PFCP level and the netlink translation are M-Core's and M-Xlate's; here only what the release
logic reads is kept.  SEIDs are allocated as `LocalNode.NewSess` does (last freed first, else the next slot).
-/
namespace UpfVerif.Buf
open UpfVerif.Gen

structure FarK where
  action : Nat                 -- apply-action word held by the data plane
  teid : Option Nat            -- outer header creation (GTP-U/UDP/IPv4 towards the sink), `none` = no forwarding parameters
deriving DecidableEq, Repr, Inhabited

structure PdrK where
  far : Nat
  qers : List Nat
deriving DecidableEq, Repr, Inhabited

structure Sess where
  cp : Nat
  q : List (Nat × List Bytes) := []          -- PDR id ↦ queue, oldest first (entries persist when drained)
  farIds : List Nat := []                     -- Sess.FARIDs
  pdrIds : List Nat := []                     -- Sess.PDRIDs
  fars : List (Nat × FarK) := []              -- data plane
  qers : List (Nat × Nat) := []               -- data plane: QER id ↦ QFI
  pdrs : List (Nat × PdrK) := []              -- data plane
deriving DecidableEq, Repr, Inhabited

structure St where
  sess : List (Nat × Sess) := []              -- UP SEID ↦ live session
  free : List Nat := []
  slots : Nat := 0
deriving DecidableEq, Repr, Inhabited

def alGet {α : Type} (l : List (Nat × α)) (k : Nat) : Option α := (l.find? (·.1 == k)).map (·.2)
def alSet {α : Type} (l : List (Nat × α)) (k : Nat) (v : α) : List (Nat × α) :=
  if l.any (·.1 == k) then l.map (fun e => if e.1 == k then (k, v) else e) else l ++ [(k, v)]
def alDel {α : Type} (l : List (Nat × α)) (k : Nat) : List (Nat × α) := l.filter (·.1 != k)

def hasBit (w bit : Nat) : Bool := w / bit % 2 == 1

def cap : Nat := pfcp.BUFFQ_LEN

/-- `Sess.Push`: non-blocking send on the PDR's channel — when full the NEW packet is dropped -/
def push (s : Sess) (pdr : Nat) (pkt : Bytes) : Sess :=
  let cur := (alGet s.q pdr).getD []
  { s with q := alSet s.q pdr (if cur.length < cap then cur ++ [pkt] else cur) }

/-- one BUFFER notification as `ServeReport` handles it: (new state, Downlink Data Report sent?) -/
def notify (st : St) (up pdr action : Nat) (pkt : Bytes) : St × Bool :=
  match alGet st.sess up with
  | none => (st, false)
  | some s =>
    let s' := if hasBit action report.APPLY_ACT_BUFF && pkt.length > 0 then push s pdr pkt else s
    ({ st with sess := alSet st.sess up s' }, hasBit action report.APPLY_ACT_NOCP)

/-- PDRs of the session whose FAR ID is `far`, ascending (gtp5g's FAR_RELATED_TO_PDR) -/
def insertAsc (x : Nat) : List Nat → List Nat
  | [] => [x]
  | y :: ys => if x ≤ y then x :: y :: ys else y :: insertAsc x ys

def sortAsc (l : List Nat) : List Nat := l.foldr insertAsc []

def related (s : Sess) (far : Nat) : List Nat :=
  sortAsc ((s.pdrs.filter fun e => e.2.far == far).map (·.1))

/-- the QFI `applyAction` re-injects with: the first QER of the PDR that the data plane holds with a non-zero QFI -/
def qfiOf (s : Sess) (pdr : Nat) : Option Nat :=
  match alGet s.pdrs pdr with
  | none => none
  | some p => p.qers.findSome? fun q => match alGet s.qers q with
    | some f => if f != 0 then some f else none
    | none => none

def gtpu (teid : Nat) (qfi : Option Nat) (pkt : Bytes) : Bytes :=
  Gtpu.encode (Gtpu.writePacketMsg (BitVec.ofNat 32 teid) (qfi.map (BitVec.ofNat 8)) pkt)

/-- drain the queues of `pdrs`; with `emit = some teid` every packet becomes one GTP-U datagram, in queue order -/
def drain (s : Sess) (emit : Option Nat) : List Nat → Sess × List Bytes
  | [] => (s, [])
  | pdr :: rest =>
    let pkts := (alGet s.q pdr).getD []
    let s1 := if (alGet s.q pdr).isSome then { s with q := alSet s.q pdr [] } else s
    let out := match emit with
      | some teid => pkts.map (gtpu teid (qfiOf s pdr))
      | none => []
    let (s2, out2) := drain s1 emit rest
    (s2, out ++ out2)

/-- `applyAction(lSeid, farid, new)`: against the FAR as the data plane holds it NOW (before the update) -/
def applyAction (s : Sess) (far : Nat) (new : Nat) : Sess × List Bytes :=
  match alGet s.fars far with
  | none => (s, [])
  | some cur =>
    if !hasBit cur.action report.APPLY_ACT_BUFF then (s, [])
    else if hasBit new report.APPLY_ACT_DROP then drain s none (related s far)
    else if hasBit new report.APPLY_ACT_FORW then
      -- without an outer header creation `WritePacket` fails after the packet was popped: the packets are lost
      drain s cur.teid (related s far) |> fun (s', out) => (s', if cur.teid.isSome then out else [])
    else (s, [])

/-- Session Modification with one Update FAR: (state, accepted?, datagrams at the sink) -/
def updateFar (st : St) (up far : Nat) (aa : Option Nat) (teid : Option Nat) : St × Bool × List Bytes :=
  match alGet st.sess up with
  | none => (st, false, [])
  | some s =>
    if !s.farIds.contains far then (st, true, []) else
    let (s1, out) := match aa with
      | some a => applyAction s far a
      | none => (s, [])
    -- the update itself: attributes present in the request replace the stored ones
    let s2 := match alGet s1.fars far with
      | none => s1
      | some cur =>
        let upd : FarK := { action := aa.getD cur.action, teid := match teid with | some t => some t | none => cur.teid }
        { s1 with fars := alSet s1.fars far upd }
    ({ st with sess := alSet st.sess up s2 }, true, out)

/-- Remove PDR: the rule goes, and with it the packets buffered for it -/
def removePdr (st : St) (up pdr : Nat) : St × Bool :=
  match alGet st.sess up with
  | none => (st, false)
  | some s =>
    if !s.pdrIds.contains pdr then (st, true) else
    let s' := { s with pdrIds := s.pdrIds.filter (· != pdr), pdrs := alDel s.pdrs pdr, q := alDel s.q pdr }
    ({ st with sess := alSet st.sess up s' }, true)

/-- Create PDR in a modification: recorded; the data plane refuses a duplicate -/
def addPdr (st : St) (up pdr far : Nat) (qers : List Nat) : St × Bool :=
  match alGet st.sess up with
  | none => (st, false)
  | some s =>
    let s' := { s with pdrIds := if s.pdrIds.contains pdr then s.pdrIds else s.pdrIds ++ [pdr],
                       pdrs := if (alGet s.pdrs pdr).isSome then s.pdrs else s.pdrs ++ [(pdr, { far := far, qers := qers })] }
    ({ st with sess := alSet st.sess up s' }, true)

/-- `LocalNode.NewSess`: the last released SEID, else a new slot -/
def alloc (st : St) : Nat × St :=
  match st.free.getLast? with
  | some x => (x, { st with free := st.free.dropLast })
  | none => (st.slots + 1, { st with slots := st.slots + 1 })

def establish (st : St) (cp : Nat) (fars : List (Nat × FarK)) (qers : List (Nat × Nat)) (pdrs : List (Nat × PdrK)) : St × Nat :=
  let (up, st1) := alloc st
  let dedupF := fars.foldl (fun acc e => if (alGet acc e.1).isSome then acc else acc ++ [e]) []
  let dedupQ := qers.foldl (fun acc e => if (alGet acc e.1).isSome then acc else acc ++ [e]) []
  let dedupP := pdrs.foldl (fun acc e => if (alGet acc e.1).isSome then acc else acc ++ [e]) []
  let s : Sess := { cp := cp, farIds := (fars.map (·.1)).eraseDups, pdrIds := (pdrs.map (·.1)).eraseDups,
                    fars := dedupF, qers := dedupQ, pdrs := dedupP }
  ({ st1 with sess := alSet st1.sess up s }, up)

/-- Session Deletion: rules withdrawn, queues closed and dropped, SEID released; nothing is emitted -/
def delete (st : St) (up : Nat) : St × Bool :=
  match alGet st.sess up with
  | none => (st, false)
  | some _ => ({ st with sess := alDel st.sess up, free := st.free ++ [up] }, true)

end UpfVerif.Buf
