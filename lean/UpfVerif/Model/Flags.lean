import UpfVerif.Basic
import UpfVerif.Gen.Consts
/-
M-Flags: model of the flag handling in `internal/report/report.go`
(ApplyAction.Unmarshal + accessors, ReportingTrigger.Unmarshal/IE + accessors,
 UsageReportTrigger.IE/SetReportingTrigger + accessors, VolumeMeasure.SetFlags).
Constants are the regenerated `Gen.report.*` values, not literals.
-/
namespace UpfVerif.Flags
open UpfVerif.Gen

/-- accessor name ↦ constant it tests (`func (a *ApplyAction) DROP() bool { return a.Flags&APPLY_ACT_DROP != 0 }`) -/
def applyConsts : List (String × Nat) := [
  ("DROP", report.APPLY_ACT_DROP), ("FORW", report.APPLY_ACT_FORW), ("BUFF", report.APPLY_ACT_BUFF),
  ("NOCP", report.APPLY_ACT_NOCP), ("DUPL", report.APPLY_ACT_DUPL), ("IPMA", report.APPLY_ACT_IPMA),
  ("IPMD", report.APPLY_ACT_IPMD), ("DFRT", report.APPLY_ACT_DFRT), ("EDRT", report.APPLY_ACT_EDRT),
  ("BDPN", report.APPLY_ACT_BDPN), ("DDPN", report.APPLY_ACT_DDPN), ("FSSM", report.APPLY_ACT_FSSM),
  ("MBSU", report.APPLY_ACT_MBSU) ]

def rptConsts : List (String × Nat) := [
  ("PERIO", report.RPT_TRIG_PERIO), ("VOLTH", report.RPT_TRIG_VOLTH), ("TIMTH", report.RPT_TRIG_TIMTH),
  ("QUHTI", report.RPT_TRIG_QUHTI), ("START", report.RPT_TRIG_START), ("STOPT", report.RPT_TRIG_STOPT),
  ("DROTH", report.RPT_TRIG_DROTH), ("LIUSA", report.RPT_TRIG_LIUSA), ("VOLQU", report.RPT_TRIG_VOLQU),
  ("TIMQU", report.RPT_TRIG_TIMQU), ("ENVCL", report.RPT_TRIG_ENVCL), ("MACAR", report.RPT_TRIG_MACAR),
  ("EVETH", report.RPT_TRIG_EVETH), ("EVEQU", report.RPT_TRIG_EVEQU), ("IPMJL", report.RPT_TRIG_IPMJL),
  ("QUVTI", report.RPT_TRIG_QUVTI), ("REEMR", report.RPT_TRIG_REEMR), ("UPINT", report.RPT_TRIG_UPINT) ]

def usarConsts : List (String × Nat) := [
  ("PERIO", report.USAR_TRIG_PERIO), ("VOLTH", report.USAR_TRIG_VOLTH), ("TIMTH", report.USAR_TRIG_TIMTH),
  ("QUHTI", report.USAR_TRIG_QUHTI), ("START", report.USAR_TRIG_START), ("STOPT", report.USAR_TRIG_STOPT),
  ("DROTH", report.USAR_TRIG_DROTH), ("IMMER", report.USAR_TRIG_IMMER), ("VOLQU", report.USAR_TRIG_VOLQU),
  ("TIMQU", report.USAR_TRIG_TIMQU), ("LIUSA", report.USAR_TRIG_LIUSA), ("TERMR", report.USAR_TRIG_TERMR),
  ("MONIT", report.USAR_TRIG_MONIT), ("ENVCL", report.USAR_TRIG_ENVCL), ("MACAR", report.USAR_TRIG_MACAR),
  ("EVETH", report.USAR_TRIG_EVETH), ("EVEQU", report.USAR_TRIG_EVEQU), ("TEBUR", report.USAR_TRIG_TEBUR),
  ("IPMJL", report.USAR_TRIG_IPMJL), ("QUVTI", report.USAR_TRIG_QUVTI), ("EMRRE", report.USAR_TRIG_EMRRE),
  ("UPINT", report.USAR_TRIG_UPINT) ]

def volConsts : List (String × Nat) := [
  ("TOVOL", report.TOVOL), ("ULVOL", report.ULVOL), ("DLVOL", report.DLVOL),
  ("TONOP", report.TONOP), ("ULNOP", report.ULNOP), ("DLNOP", report.DLNOP) ]

/-- `x.Flags & CONST != 0` -/
def test {w : Nat} (flags : BitVec w) (c : Nat) : Bool := (flags &&& BitVec.ofNat w c) != 0#w

/-- `ApplyAction.Unmarshal`: error below 1 octet; the first two octets (zero-extended) read little-endian. -/
def applyUnmarshal (b : Bytes) : Option (BitVec 16) :=
  match b with
  | [] => none
  | [b0] => some (b0.setWidth 16)
  | b0 :: b1 :: _ => some (b0.setWidth 16 ||| (b1.setWidth 16 <<< 8))

/-- `ReportingTrigger.Unmarshal`: error below 2 octets; `LittleEndian.Uint32` of the input padded with two zero octets. -/
def rptUnmarshal (b : Bytes) : Option (BitVec 32) :=
  match b with
  | [] => none
  | [_] => none
  | [b0, b1] => some (b0.setWidth 32 ||| (b1.setWidth 32 <<< 8))
  | [b0, b1, b2] => some (b0.setWidth 32 ||| (b1.setWidth 32 <<< 8) ||| (b2.setWidth 32 <<< 16))
  | b0 :: b1 :: b2 :: b3 :: _ =>
    some (b0.setWidth 32 ||| (b1.setWidth 32 <<< 8) ||| (b2.setWidth 32 <<< 16) ||| (b3.setWidth 32 <<< 24))

/-- `ReportingTrigger.IE` / `UsageReportTrigger.IE`: first three little-endian octets of the flag word. -/
def trigIE (flags : BitVec 32) : Bytes :=
  [flags.setWidth 8, (flags >>> 8).setWidth 8, (flags >>> 16).setWidth 8]

/-- the `switch r` of `UsageReportTrigger.SetReportingTrigger`: (case constant, flag or-ed in) -/
def setRptTable : List (Nat × Nat) := [
  (report.RPT_TRIG_PERIO, report.USAR_TRIG_PERIO), (report.RPT_TRIG_VOLTH, report.USAR_TRIG_VOLTH),
  (report.RPT_TRIG_TIMTH, report.USAR_TRIG_TIMTH), (report.RPT_TRIG_QUHTI, report.USAR_TRIG_QUHTI),
  (report.RPT_TRIG_START, report.USAR_TRIG_START), (report.RPT_TRIG_STOPT, report.USAR_TRIG_STOPT),
  (report.RPT_TRIG_DROTH, report.USAR_TRIG_DROTH), (report.RPT_TRIG_LIUSA, report.USAR_TRIG_LIUSA),
  (report.RPT_TRIG_VOLQU, report.USAR_TRIG_VOLQU), (report.RPT_TRIG_TIMQU, report.USAR_TRIG_TIMQU),
  (report.RPT_TRIG_ENVCL, report.USAR_TRIG_ENVCL), (report.RPT_TRIG_MACAR, report.USAR_TRIG_MACAR),
  (report.RPT_TRIG_EVETH, report.USAR_TRIG_EVETH), (report.RPT_TRIG_EVEQU, report.USAR_TRIG_EVEQU),
  (report.RPT_TRIG_IPMJL, report.USAR_TRIG_IPMJL), (report.RPT_TRIG_QUVTI, report.USAR_TRIG_QUVTI),
  (report.RPT_TRIG_UPINT, report.USAR_TRIG_UPINT) ]

def setReportingTrigger (flags : BitVec 32) (r : BitVec 32) : BitVec 32 :=
  match setRptTable.find? (fun p => BitVec.ofNat 32 p.1 == r) with
  | some p => flags ||| BitVec.ofNat 32 p.2
  | none => flags

/-- `VolumeMeasure.SetFlags(mnop)` -/
def volSetFlags (flags : Byte) (mnop : Bool) : Byte :=
  let f := flags ||| BitVec.ofNat 8 (report.TOVOL ||| report.ULVOL ||| report.DLVOL)
  if mnop then f ||| BitVec.ofNat 8 (report.TONOP ||| report.ULNOP ||| report.DLNOP) else f

/-- big-endian 64-bit, as `binary.BigEndian.PutUint64` -/
def be64 (x : BitVec 64) : Bytes :=
  [(x >>> 56).setWidth 8, (x >>> 48).setWidth 8, (x >>> 40).setWidth 8, (x >>> 32).setWidth 8,
   (x >>> 24).setWidth 8, (x >>> 16).setWidth 8, (x >>> 8).setWidth 8, x.setWidth 8]

/-- counters after the flag octet: the `i`-th counter is written iff flag bit `i` is set -/
def volFields (flags : Byte) : Nat → List (BitVec 64) → Bytes
  | _, [] => []
  | i, v :: vs => (if flags.getLsbD i then be64 v else []) ++ volFields flags (i + 1) vs

/-- payload of the Volume Measurement IE as `VolumeMeasure.IE()` → go-pfcp `NewVolumeMeasurement`
    builds it: flag octet, then each 8-octet counter whose flag bit (1..6) is set, in table order
    (`vals` = total, uplink, downlink volume, total, uplink, downlink packets). -/
def volIE (flags : Byte) (vals : List (BitVec 64)) : Bytes :=
  flags :: volFields flags 0 vals

end UpfVerif.Flags
