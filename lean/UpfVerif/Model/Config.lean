import UpfVerif.Gen.ConfigTags
import UpfVerif.Gen.Consts
/-
M-Config: start-up checks of go-upf —
  `factory.ReadConfig` (pkg/factory/factory.go): YAML decode into `factory.Config`, `govalidator.ValidateStruct` driven by
  the struct tags (REGENERATED from /repo into `Gen.configFields`), resolution of the node id;
  `forwarder.NewDriver`'s checks before the driver is opened (internal/forwarder/driver.go);
  `Gtp5g.checkVersion` (internal/forwarder/gtp5g.go) on numeric module versions.

A configuration document is abstracted to the *class* of each field (which is what validation depends on); the harness
generates concrete YAML for each class and the real code is run on it.
-/
namespace UpfVerif.Config
open UpfVerif.Gen

/-- class of a scalar field in the YAML document -/
inductive FV
  | absent      -- key missing (or null): the Go zero value
  | empty       -- explicit zero value: "", 0, false
  | bad         -- present, non-zero, violating the field's validator (only generated for fields that have one)
  | good        -- present, non-zero, satisfying the validator (if any)
  | mistyped    -- a YAML node of the wrong shape for the Go type (mapping for a scalar, text for a number, …)
deriving DecidableEq, Repr, Inhabited

/-- a section (pointer to struct) or a list -/
inductive Sec (α : Type)
  | absent
  | null
  | mistyped
  | present (a : α)
deriving Repr, Inhabited

structure IfE where
  addr : FV
  type : FV
  name : FV
  ifname : FV
  mtu : FV
deriving Repr, Inhabited

structure DnnE where
  dnn : FV
  cidr : FV
  natif : FV
deriving Repr, Inhabited

structure PfcpD where
  addr : FV
  nodeID : FV
  retrans : FV
  maxRetrans : FV
deriving Repr, Inhabited

structure GtpuD where
  forwarder : FV
  ifList : Sec (List IfE)
deriving Repr, Inhabited

structure LoggerD where
  enable : FV
  level : FV
  reportCaller : FV
deriving Repr, Inhabited

structure Doc where
  version : FV
  description : FV
  pfcp : Sec PfcpD
  gtpu : Sec GtpuD
  dnnList : Sec (List DnnE)
  logger : Sec LoggerD
  /-- environment: does `net.ResolveIPAddr("ip4", nodeID)` succeed for the document's node id -/
  resolves : Bool
deriving Repr, Inhabited

/-! ### YAML decode: fails iff some node has the wrong shape -/

def FV.typed (v : FV) : Bool := v != .mistyped

def Sec.typed {α : Type} (f : α → Bool) : Sec α → Bool
  | .mistyped => false
  | .present a => f a
  | _ => true

def decodeOK (d : Doc) : Bool :=
  d.version.typed && d.description.typed &&
  d.pfcp.typed (fun p => p.addr.typed && p.nodeID.typed && p.retrans.typed && p.maxRetrans.typed) &&
  d.gtpu.typed (fun g => g.forwarder.typed &&
    g.ifList.typed (fun l => l.all fun e => e.addr.typed && e.type.typed && e.name.typed && e.ifname.typed && e.mtu.typed)) &&
  d.dnnList.typed (fun l => l.all fun e => e.dnn.typed && e.cidr.typed && e.natif.typed) &&
  d.logger.typed (fun l => l.enable.typed && l.level.typed && l.reportCaller.typed)

/-! ### govalidator.ValidateStruct, interpreting the regenerated tags -/

def tagOf (tags : List ConfigField) (s f : String) : Option ConfigField :=
  tags.find? fun c => c.struct == s && c.field == f

/-- one scalar field: a zero value passes iff the field is not `required`; a non-zero value must satisfy every
    validator of the tag (`host`, `cidr`, `in(…)`) -/
def fieldOK (tags : List ConfigField) (s f : String) (v : FV) : Bool :=
  match tagOf tags s f with
  | none => false
  | some c =>
    match v with
    | .absent | .empty => !c.required
    | .bad => !(c.host || c.cidr || !c.inVals.isEmpty)
    | .good => true
    | .mistyped => false

/-- a pointer-to-struct field: nil passes iff not required; otherwise the struct is validated -/
def ptrOK {α : Type} (tags : List ConfigField) (s f : String) (inner : α → Bool) : Sec α → Bool
  | .present a => inner a
  | .mistyped => false
  | _ => match tagOf tags s f with
    | some c => !c.required
    | none => false

/-- a slice-of-struct field: empty passes iff not required; every element is validated -/
def listOK {α : Type} (tags : List ConfigField) (s f : String) (inner : α → Bool) : Sec (List α) → Bool
  | .present l => (if l.isEmpty then (match tagOf tags s f with | some c => !c.required | none => false) else true) && l.all inner
  | .mistyped => false
  | _ => match tagOf tags s f with
    | some c => !c.required
    | none => false

def validateOK (tags : List ConfigField) (d : Doc) : Bool :=
  fieldOK tags "Config" "Version" d.version && fieldOK tags "Config" "Description" d.description &&
  ptrOK tags "Config" "Pfcp" (fun p =>
    fieldOK tags "Pfcp" "Addr" p.addr && fieldOK tags "Pfcp" "NodeID" p.nodeID &&
    fieldOK tags "Pfcp" "RetransTimeout" p.retrans && fieldOK tags "Pfcp" "MaxRetrans" p.maxRetrans) d.pfcp &&
  ptrOK tags "Config" "Gtpu" (fun g =>
    fieldOK tags "Gtpu" "Forwarder" g.forwarder &&
    listOK tags "Gtpu" "IfList" (fun e =>
      fieldOK tags "IfInfo" "Addr" e.addr && fieldOK tags "IfInfo" "Type" e.type && fieldOK tags "IfInfo" "Name" e.name &&
      fieldOK tags "IfInfo" "IfName" e.ifname && fieldOK tags "IfInfo" "MTU" e.mtu) g.ifList) d.gtpu &&
  listOK tags "Config" "DnnList" (fun e =>
    fieldOK tags "DnnList" "Dnn" e.dnn && fieldOK tags "DnnList" "Cidr" e.cidr && fieldOK tags "DnnList" "NatIfName" e.natif) d.dnnList &&
  ptrOK tags "Config" "Logger" (fun l =>
    fieldOK tags "Logger" "Enable" l.enable && fieldOK tags "Logger" "Level" l.level &&
    fieldOK tags "Logger" "ReportCaller" l.reportCaller) d.logger

/-- `ReadConfig`: decode, validate, resolve the node id -/
def readConfigOK (tags : List ConfigField) (d : Doc) : Bool := decodeOK d && validateOK tags d && d.resolves

/-- `NewDriver` before `OpenGtp5g`: a Gtpu section, the gtp5g forwarder, at least one interface entry -/
def driverPreOK (d : Doc) : Bool :=
  match d.gtpu with
  | .present g => g.forwarder == .good && (match g.ifList with | .present l => !l.isEmpty | _ => false)
  | _ => false

def startupOK (tags : List ConfigField) (d : Doc) : Bool := readConfigOK tags d && driverPreOK d

/-! ### gtp5g version window (`checkVersion`): numeric versions compare segment by segment, missing segments are 0 -/

def seg (v : List Nat) (i : Nat) : Nat := v.getD i 0

/-- hashicorp/go-version `LessThan` on plain numeric versions of up to three segments -/
def verLt (a b : List Nat) : Bool :=
  seg a 0 < seg b 0 || (seg a 0 == seg b 0 && (seg a 1 < seg b 1 || (seg a 1 == seg b 1 && seg a 2 < seg b 2)))

/-- `nowVer.LessThan(min) || nowVer.GreaterThanOrEqual(max)` → error -/
def versionOK (min max v : List Nat) : Bool := !(verLt v min || !verLt v max)

end UpfVerif.Config
