/-
M-Krep — the REPORT branch of `buffnetlink.Server.ServeMsg` (server.go:117-160): one multicast of the gtp5g module carries
usage reports of several sessions; they are grouped by SEID (a Go map of slices, `append` per report) and one
`NotifySessReport` is made per SEID, in map-iteration order, each with that session's reports in message order.
-/
namespace UpfVerif.Krep

variable {α : Type}

/-- the SEIDs of a message, each once, in order of first appearance (the order the notifications are made in is the
    environment's; nothing below depends on it) -/
def seids (items : List (Nat × α)) : List Nat := (items.map (·.1)).eraseDups

/-- `usars[seid]`: the reports of one session, in message order -/
def groupOf (items : List (Nat × α)) (x : Nat) : List α := (items.filter (·.1 == x)).map (·.2)

/-- the notifications of one multicast -/
def groups (items : List (Nat × α)) : List (Nat × List α) := (seids items).map fun x => (x, groupOf items x)

end UpfVerif.Krep
