import UpfVerif.Basic
import UpfVerif.Gen.Consts
/-
M-Core: the PFCP control plane of `internal/pfcp` as a pure state machine.

  node.go      Sess (five id maps, PDRInfo, URRInfo, packet queues), RemoteNode, LocalNode
  session.go   establishment / modification / deletion / report-response handlers
  association.go, heartbeat.go, report.go (ServeReport), pfcp.go (loop body, UpdateNodeID,
  sendReqTo/sendRspTo, PopBufPkt), transaction.go (Tx/Rx transactions)

Conventions (DESIGN.md §3): SEIDs are `BitVec 64` and the slice index is computed as Go does;
Go maps are association lists; wherever the code ranges over a map the iteration order comes
from the environment (`Env.hint`, any order); every `forwarder.Driver` call consumes one answer
of the environment (`Env.answers`: ok/err + usage reports), so the fault oracle of C01 is "any
answer stream"; panics are outcomes (`Fault`), not impossibilities; timers are events.
-/
namespace UpfVerif.Core

abbrev Seid := BitVec 64

/-- a PFCP Node ID as the UPF keys its associations by (the string `NodeID()` returns): an IPv4 address — written as the
    peer that owns it in the abstract world —, an IPv6 literal, or an FQDN -/
inductive NodeId
  | v4 (peer : String)
  | v6 (text : String)
  | fqdn (text : String)
deriving DecidableEq, Repr, Inhabited

inductive Kind | pdr | far | qer | urr | bar
deriving DecidableEq, Repr, Inhabited

inductive Op | create | update | remove | query
deriving DecidableEq, Repr, Inhabited

/-- one call on `forwarder.Driver` (the SEID the call is tagged with, the rule addressed) -/
structure DpCall where
  seid : Seid
  op   : Op
  kind : Kind
  id   : Nat
deriving DecidableEq, Repr, Inhabited

/-- a usage report as the data plane hands it up: URR id, trigger flag word, and the measured values
    (six counters, start, end, duration — copied through unchanged by the control plane) -/
structure Report where
  urr  : Nat
  trig : BitVec 32
  meas : List Nat
deriving DecidableEq, Repr, Inhabited

/-- what the driver answered to one call -/
structure DpAns where
  ok      : Bool
  reports : List Report := []
deriving DecidableEq, Repr, Inhabited

/-- `URRInfo` (node.go:24-30). `meth` = (DURAT, VOLUM, EVENT), `mnop` from Measurement Information. -/
structure URRInfo where
  removed   : Bool := false
  seqn      : Nat := 0          -- uint32 in Go; wrap-around after 2^32 reports is outside C11's claim
  durat     : Bool := false
  volum     : Bool := false
  mnop      : Bool := false
  refPdrNum : Nat := 0          -- uint16 in Go
deriving DecidableEq, Repr, Inhabited

/-- `Sess` (node.go:32-44); `q` are the per-PDR packet queues (bounded channels of capacity `qlen`). -/
structure Sess where
  rnode    : Nat                      -- handle of the owning RemoteNode object
  localID  : Seid
  remoteID : Seid
  pdrs : List (Nat × List Nat) := []  -- PDR id ↦ related URR ids (a set)
  fars : List Nat := []
  qers : List Nat := []
  urrs : List (Nat × URRInfo) := []
  bars : List Nat := []
  q    : List (Nat × List Bytes) := []
deriving DecidableEq, Repr, Inhabited

/-- `RemoteNode`: id string, address the association came from, set of local SEIDs -/
structure RNode where
  id   : NodeId
  addr : String
  sess : List Seid := []
deriving DecidableEq, Repr, Inhabited

/-- `LocalNode{sess []*Sess; free []uint64}` -/
structure LNode where
  sess : List (Option Sess) := []
  free : List Seid := []
deriving DecidableEq, Repr, Inhabited

/-- usage-report IE set as emitted (`IEsWithinSess…`): URR id, UR-SEQN, trigger word, and which measurement
    IEs are present with which values -/
structure UsarIE where
  urr    : Nat
  seqn   : Nat
  trig   : BitVec 32
  times  : Option (Nat × Nat)        -- start, end (absent for START/STOPT/MACAR)
  vol    : Option (Byte × List Nat)  -- flag octet after SetFlags, six counters
  dur    : Option Nat
deriving DecidableEq, Repr, Inhabited

inductive MsgKind
  | hbRsp | assocRsp | estRsp | modRsp | delRsp | srReq
deriving DecidableEq, Repr, Inhabited

/-- a PFCP message the UPF sends, at the level of the fields go-upf sets -/
structure Msg where
  kind    : MsgKind
  seq     : BitVec 24                 -- sequence number on the wire
  seid    : Option Seid := none       -- header SEID (S flag)
  cause   : Option Nat := none
  nodeID  : Bool := false             -- carries the UPF's node id
  recov   : Bool := false             -- carries the recovery time stamp
  fseid   : Option Seid := none       -- UP F-SEID
  created : List (Nat × Bytes) := []  -- Created PDR: id, UE IPv4
  usars   : List UsarIE := []
  rtype   : Option Nat := none        -- report type octet
  dldr    : Option Nat := none        -- Downlink Data Report: PDR id
deriving DecidableEq, Repr, Inhabited

inductive Out
  | dp (c : DpCall) (a : DpAns)       -- a driver call and what it returned
  | send (to : String) (m : Msg)      -- a datagram to `to` ("ip:port")
deriving DecidableEq, Repr, Inhabited

/-- transmit transaction (`TxTransaction`): the request, its bytes are fixed at `send`; `timer` = armed -/
structure Tx where
  to    : String
  msg   : Msg
  count : Nat := 0                    -- retransCount (uint8; maxRetrans ≤ 255 bounds it)
  reqSeid : Seid := 0                 -- request header SEID = the session's control-plane SEID (SEID-0 response path)
deriving DecidableEq, Repr, Inhabited

/-- receive transaction (`RxTransaction`): cached response, if one was sent -/
structure Rx where
  rsp : Option Msg := none
deriving DecidableEq, Repr, Inhabited

structure Cfg where
  maxRetrans : Nat := 3
  qlen : Nat := Gen.pfcp.BUFFQ_LEN
deriving DecidableEq, Repr, Inhabited

structure State where
  cfg    : Cfg := {}
  lnode  : LNode := {}
  nodes  : List RNode := []                     -- arena of RemoteNode objects (handles are indices)
  rnodes : List (NodeId × Nat) := []            -- `rnodes map[string]*RemoteNode`
  rx     : List ((String × BitVec 24) × Rx) := []   -- key "addr-seq" (request seq is parsed from the wire: 24 bit)
  tx     : List ((String × BitVec 24) × Tx) := []   -- key "addr-seq": the sequence number that goes on the wire
  txSeq  : BitVec 32 := 0
deriving Repr, Inhabited

inductive Fault
  | indexOutOfRange      -- slice index panic
  | nilDeref             -- nil pointer dereference
deriving DecidableEq, Repr, Inhabited

/-! ### environment: driver answers and map-iteration order -/

/-- The environment of one event: what the data plane will answer, call by call.  `pending` lists, in order,
    the driver calls the environment expects together with its answers; a call of the model consumes the head
    and takes its answer (whatever call is written there — a mismatch shows in the outputs).  The same list
    resolves Go's map-iteration order: wherever the code ranges over a map, the next key is the one named by the
    head of `pending` if that is a call the loop can make for one of the remaining keys, otherwise the first
    remaining key.  `sessOrder` is the order in which `RemoteNode.Reset` visits the node's sessions.
    Theorems quantify over every `Env`, hence over every answer stream (faults anywhere) and iteration order. -/
structure Env where
  pending   : List (DpCall × DpAns) := []
  sessOrder : List Seid := []
deriving Inhabited

/-- handler context: what is left of the environment's script, outputs so far -/
structure Ctx where
  pending : List (DpCall × DpAns)
  outs    : List Out := []
deriving Inhabited

def Ctx.call (c : Ctx) (call : DpCall) : Ctx × DpAns :=
  match c.pending with
  | [] => let a : DpAns := { ok := false }; ({ c with outs := c.outs ++ [.dp call a] }, a)
  | (_, a) :: rest => ({ pending := rest, outs := c.outs ++ [.dp call a] }, a)

def Ctx.emit (c : Ctx) (o : Out) : Ctx := { c with outs := c.outs ++ [o] }

/-- next key of a map iteration whose body may call `(seid, op, kind, ·)` -/
def Ctx.pick (c : Ctx) (seid : Seid) (op : Op) (kind : Kind) (keys : List Nat) : Option Nat :=
  match keys with
  | [] => none
  | k0 :: _ =>
    match c.pending with
    | (call, _) :: _ =>
      if call.seid == seid && call.op == op && call.kind == kind && call.id ∈ keys then some call.id else some k0
    | [] => some k0

/-- `for k := range m { body }` over the key set `keys`; the order is the environment's (see `Env`) -/
def rangeMap {σ : Type} (seid : Seid) (op : Op) (kind : Kind) (body : Nat → σ → Ctx → σ × Ctx) :
    Nat → List Nat → σ → Ctx → σ × Ctx
  | 0, _, st, c => (st, c)
  | fuel + 1, keys, st, c =>
    match c.pick seid op kind keys with
    | none => (st, c)
    | some k =>
      let (st', c') := body k st c
      rangeMap seid op kind body fuel (keys.erase k) st' c'

/-- order of `RemoteNode.Reset`'s iteration: the environment's order first, the rest after -/
def arrange [DecidableEq α] (keys : List α) (hint : List α) : List α :=
  (hint.eraseDups.filter (· ∈ keys)) ++ keys.filter (· ∉ hint)

/-! ### association lists -/

def alGet [DecidableEq κ] : List (κ × ν) → κ → Option ν
  | [], _ => none
  | p :: l, k => if p.1 == k then some p.2 else alGet l k
def alDel [DecidableEq κ] (l : List (κ × ν)) (k : κ) : List (κ × ν) := l.filter (·.1 != k)
/-- `m[k] = v`: replace in place, or append -/
def alSet [DecidableEq κ] : List (κ × ν) → κ → ν → List (κ × ν)
  | [], k, v => [(k, v)]
  | p :: l, k, v => if p.1 == k then (k, v) :: l else p :: alSet l k v
def setIns [DecidableEq α] (l : List α) (a : α) : List α := if a ∈ l then l else l ++ [a]

/-! ### abstract rule IEs (what the handlers and `Sess` methods look at) -/

/-- a Create/Update/Remove rule IE: the id child (absent ⇒ the accessor fails), and for PDRs the URR id
    children in IE order, for URRs the measurement method / information children -/
structure RuleIE where
  id    : Option Nat
  urrs  : List Nat := []                       -- PDR: URR ID children, in order
  meth  : Option (Bool × Bool) := none         -- URR: Measurement Method child (DURAT, VOLUM)
  mnop  : Option Bool := none                  -- URR: Measurement Information child (MNOP)
  ueip  : Option Bytes := none                 -- Create PDR: UE IP address (IPv4) in the PDI
deriving DecidableEq, Repr, Inhabited

def usarTERMR : BitVec 32 := BitVec.ofNat 32 Gen.report.USAR_TRIG_TERMR
def usarIMMER : BitVec 32 := BitVec.ofNat 32 Gen.report.USAR_TRIG_IMMER

def flag (f : BitVec 32) (rs : List Report) : List Report := rs.map fun r => { r with trig := r.trig ||| f }

/-! ### `Sess` methods (node.go) — each returns the new session, the context and its result -/

/-- generic FAR/QER/BAR create: record the id, then call the driver -/
def Sess.createSimple (s : Sess) (k : Kind) (ie : RuleIE) (c : Ctx) : Sess × Ctx :=
  match ie.id with
  | none => (s, c)
  | some id =>
    let s' := match k with
      | .far => { s with fars := setIns s.fars id }
      | .qer => { s with qers := setIns s.qers id }
      | .bar => { s with bars := setIns s.bars id }
      | _ => s
    let (c', _) := c.call { seid := s.localID, op := .create, kind := k, id := id }
    (s', c')

def Sess.ids (s : Sess) : Kind → List Nat
  | .far => s.fars
  | .qer => s.qers
  | .bar => s.bars
  | .urr => s.urrs.map (·.1)
  | .pdr => s.pdrs.map (·.1)

def Sess.updateSimple (s : Sess) (k : Kind) (ie : RuleIE) (c : Ctx) : Sess × Ctx :=
  match ie.id with
  | none => (s, c)
  | some id =>
    if id ∈ s.ids k then
      let (c', _) := c.call { seid := s.localID, op := .update, kind := k, id := id }
      (s, c')
    else (s, c)

def Sess.removeSimple (s : Sess) (k : Kind) (ie : RuleIE) (c : Ctx) : Sess × Ctx :=
  match ie.id with
  | none => (s, c)
  | some id =>
    if id ∈ s.ids k then
      let (c', a) := c.call { seid := s.localID, op := .remove, kind := k, id := id }
      if a.ok then
        let s' := match k with
          | .far => { s with fars := s.fars.filter (· != id) }
          | .qer => { s with qers := s.qers.filter (· != id) }
          | .bar => { s with bars := s.bars.filter (· != id) }
          | _ => s
        (s', c')
      else (s, c')
    else (s, c)

/-- `urrInfo.refPdrNum++` for URR `u`, if the session knows it -/
def bumpRef (us : List (Nat × URRInfo)) (u : Nat) : List (Nat × URRInfo) :=
  us.map fun p => (p.1, if p.1 == u then { p.2 with refPdrNum := p.2.refPdrNum + 1 } else p.2)

/-- `CreatePDR`: pdrid defaults to 0; every DISTINCT URR ID child bumps the reference count of a known URR (a PDR
    refers to a URR once, however often the id is repeated); the id is recorded (overwriting) before the driver call -/
def Sess.createPDR (s : Sess) (ie : RuleIE) (c : Ctx) : Sess × Ctx :=
  let pdrid := ie.id.getD 0
  let urrs' := ie.urrs.eraseDups.foldl bumpRef s.urrs
  let s' := { s with urrs := urrs', pdrs := alSet s.pdrs pdrid ie.urrs.eraseDups }
  let (c', _) := c.call { seid := s.localID, op := .create, kind := .pdr, id := pdrid }
  (s', c')

/-- `diassociateURR` -/
def Sess.diassociate (s : Sess) (u : Nat) (c : Ctx) : Sess × Ctx × List Report :=
  match alGet s.urrs u with
  | none => (s, c, [])
  | some info =>
    if info.refPdrNum > 0 then
      let info' := { info with refPdrNum := info.refPdrNum - 1 }
      let s' := { s with urrs := alSet s.urrs u info' }
      if info'.refPdrNum == 0 then
        let (c', a) := c.call { seid := s.localID, op := .query, kind := .urr, id := u }
        if a.ok then (s', c', flag usarTERMR a.reports) else (s', c', [])
      else (s', c, [])
    else (s, c, [])

/-- `for urrid := range pdrInfo.RelatedURRIDs { s.diassociateURR(urrid) }` -/
def Sess.diassociateAll (s : Sess) (us : List Nat) (c : Ctx) : Sess × Ctx × List Report :=
  let ((s', rs), c') := rangeMap s.localID .query .urr (fun u (acc : Sess × List Report) c =>
      let (s2, c2, r) := acc.1.diassociate u c
      ((s2, acc.2 ++ r), c2)) us.length us (s, []) c
  (s', c', rs)

/-- `UpdatePDR`: found-check, driver call, dissociate URRs no longer named, replace the list.
    (The reference counts of newly named URRs are incremented — see the `fix:` commit for C12.) -/
def Sess.updatePDR (s : Sess) (ie : RuleIE) (c : Ctx) : Sess × Ctx × List Report :=
  let pdrid := ie.id.getD 0
  let newU := ie.urrs.eraseDups
  match alGet s.pdrs pdrid with
  | none => (s, c, [])
  | some old =>
    let (c1, a) := c.call { seid := s.localID, op := .update, kind := .pdr, id := pdrid }
    if !a.ok then (s, c1, []) else
    let (s2, c2, rs) := s.diassociateAll (old.filter (· ∉ newU)) c1
    let added := newU.filter (· ∉ old)
    let urrs' := added.foldl bumpRef s2.urrs
    ({ s2 with urrs := urrs', pdrs := alSet s2.pdrs pdrid newU }, c2, rs)

/-- `RemovePDR` -/
def Sess.removePDR (s : Sess) (ie : RuleIE) (c : Ctx) : Sess × Ctx × List Report :=
  match ie.id with
  | none => (s, c, [])
  | some pdrid =>
    match alGet s.pdrs pdrid with
    | none => (s, c, [])
    | some us =>
      let (c1, a) := c.call { seid := s.localID, op := .remove, kind := .pdr, id := pdrid }
      if !a.ok then (s, c1, []) else
      -- (`delete(s.PDRIDs, pdrid)` comes after the dissociation loop in node.go; the loop does not read the PDR map,
      --  so the model deletes first — same result, and the driver call and the bookkeeping change stay together)
      -- (the packets buffered for the PDR go with it: `delete(s.q, pdrid)`)
      ({ s with pdrs := alDel s.pdrs pdrid, q := alDel s.q pdrid } : Sess).diassociateAll us c1

/-- `CreateURR`: a fresh `URRInfo` (overwriting any old one) is recorded before the driver call -/
def Sess.createURR (s : Sess) (ie : RuleIE) (c : Ctx) : Sess × Ctx :=
  match ie.id with
  | none => (s, c)
  | some id =>
    -- PDRs created earlier may already name this URR: the new entry starts with their number as reference count
    let info : URRInfo := { durat := (ie.meth.getD (false, false)).1, volum := (ie.meth.getD (false, false)).2,
                            mnop := ie.mnop.getD false,
                            refPdrNum := (s.pdrs.filter fun p => p.2.contains id).length }
    let s' := { s with urrs := alSet s.urrs id info }
    let (c', _) := c.call { seid := s.localID, op := .create, kind := .urr, id := id }
    (s', c')

/-- the Measurement Method / Measurement Information children of an Update URR overwrite the recorded flags -/
def URRInfo.applyUpdate (info : URRInfo) (ie : RuleIE) : URRInfo :=
  let info1 := match ie.meth with
    | some (d, v) => { info with durat := d, volum := v }
    | none => info
  match ie.mnop with
  | some m => { info1 with mnop := m }
  | none => info1

def Sess.updateURR (s : Sess) (ie : RuleIE) (c : Ctx) : Sess × Ctx × List Report :=
  match ie.id with
  | none => (s, c, [])
  | some id =>
    match alGet s.urrs id with
    | none => (s, c, [])
    | some info =>
      let s' := { s with urrs := alSet s.urrs id (info.applyUpdate ie) }
      let (c', a) := c.call { seid := s.localID, op := .update, kind := .urr, id := id }
      if a.ok then (s', c', a.reports) else (s', c', [])

/-- `RemoveURR`: marks the entry removed (it is dropped when its report is emitted), reports flagged TERMR -/
def Sess.removeURR (s : Sess) (ie : RuleIE) (c : Ctx) : Sess × Ctx × Option (List Report) :=
  match ie.id with
  | none => (s, c, none)
  | some id =>
    match alGet s.urrs id with
    | none => (s, c, none)
    | some info =>
      let s' := { s with urrs := alSet s.urrs id { info with removed := true } }
      let (c', a) := c.call { seid := s.localID, op := .remove, kind := .urr, id := id }
      if a.ok then (s', c', some (flag usarTERMR a.reports)) else (s', c', none)

def Sess.queryURR (s : Sess) (ie : RuleIE) (c : Ctx) : Sess × Ctx × List Report :=
  match ie.id with
  | none => (s, c, [])
  | some id =>
    match alGet s.urrs id with
    | none => (s, c, [])
    | some _ =>
      let (c', a) := c.call { seid := s.localID, op := .query, kind := .urr, id := id }
      if a.ok then (s, c', flag usarIMMER a.reports) else (s, c', [])

def foldSimple (f : Sess → RuleIE → Ctx → Sess × Ctx) (ies : List RuleIE) (s : Sess) (c : Ctx) : Sess × Ctx :=
  ies.foldl (fun (acc : Sess × Ctx) ie => f acc.1 ie acc.2) (s, c)

def foldRep (f : Sess → RuleIE → Ctx → Sess × Ctx × List Report) (ies : List RuleIE) (s : Sess) (c : Ctx)
    (rs : List Report) : Sess × Ctx × List Report :=
  ies.foldl (fun (acc : Sess × Ctx × List Report) ie =>
    let (s1, c1, r1) := acc
    let (s2, c2, r2) := f s1 ie c1
    (s2, c2, r1 ++ r2)) (s, c, rs)

def optList (o : Option RuleIE) : List RuleIE := o.toList

/-- one `for _, i := range req.X { sess.Y(i) }` loop of a handler -/
abbrev Stage := Sess → Ctx → List Report → Sess × Ctx × List Report

def liftS (f : Sess → RuleIE → Ctx → Sess × Ctx) (ies : List RuleIE) : Stage := fun s c rs =>
  ((foldSimple f ies s c).1, (foldSimple f ies s c).2, rs)

def liftR (f : Sess → RuleIE → Ctx → Sess × Ctx × List Report) (ies : List RuleIE) : Stage := fun s c rs =>
  foldRep f ies s c rs

def runStages (stages : List Stage) (s : Sess) (c : Ctx) (rs : List Report) : Sess × Ctx × List Report :=
  stages.foldl (fun (acc : Sess × Ctx × List Report) st => st acc.1 acc.2.1 acc.2.2) (s, c, rs)

/-- `Sess.Close`: remove every recorded FAR, QER, URR, BAR, PDR (map order from the environment);
    the packet queues are closed (dropped with the session). -/
def Sess.close (s : Sess) (c : Ctx) : Sess × Ctx × List Report :=
  let mk (id : Nat) : RuleIE := { id := some id }
  let (s1, c1) := rangeMap s.localID .remove .far (fun id (s : Sess) c => s.removeSimple .far (mk id) c) s.fars.length s.fars s c
  let (s2, c2) := rangeMap s.localID .remove .qer (fun id (s : Sess) c => s.removeSimple .qer (mk id) c) s1.qers.length s1.qers s1 c1
  let urrKeys := s2.urrs.map (·.1)
  let ((s3, r3), c3) := rangeMap s.localID .remove .urr (fun id (acc : Sess × List Report) c =>
      let (s', c', r) := acc.1.removeURR (mk id) c
      ((s', acc.2 ++ r.getD []), c')) urrKeys.length urrKeys (s2, []) c2
  let (s4, c4) := rangeMap s.localID .remove .bar (fun id (s : Sess) c => s.removeSimple .bar (mk id) c) s3.bars.length s3.bars s3 c3
  let pdrKeys := s4.pdrs.map (·.1)
  let ((s5, r5), c5) := rangeMap s.localID .remove .pdr (fun id (acc : Sess × List Report) c =>
      let (s', c', r) := acc.1.removePDR (mk id) c
      ((s', acc.2 ++ r), c')) pdrKeys.length pdrKeys (s4, r3) c4
  ({ s5 with q := [] }, c5, r5)

/-- one iteration of the emission loop shared by the three carriers (`Sess.URRSeq` + `IEsWithinSess…`): a report
    for a URR the session does not know is skipped; otherwise the IE takes the URR's counter, the counter is
    incremented, and — in the two response carriers (`dropRemoved`) — the bookkeeping of a URR marked `removed` is
    dropped after its report (session.go:324-326, 390-392). -/
def emitOne (s : Sess) (r : Report) (extra : BitVec 32) (dropRemoved : Bool) : Sess × Option UsarIE :=
  match alGet s.urrs r.urr with
  | none => (s, none)
  | some info =>
    let trig := r.trig ||| extra
    let startF := BitVec.ofNat 32 Gen.report.USAR_TRIG_START
    let stopF := BitVec.ofNat 32 Gen.report.USAR_TRIG_STOPT
    let macarF := BitVec.ofNat 32 Gen.report.USAR_TRIG_MACAR
    let noTimes := (trig &&& startF != 0) || (trig &&& stopF != 0) || (trig &&& macarF != 0)
    let volFlags : Byte := if info.mnop then 0x3f#8 else 0x07#8
    let ie : UsarIE := {
      urr := r.urr, seqn := info.seqn, trig := trig,
      times := if noTimes then none else some (r.meas.getD 6 0, r.meas.getD 7 0),
      vol := if info.volum then some (volFlags, r.meas.take 6) else none,
      dur := if info.durat then some (r.meas.getD 8 0) else none }
    let urrs' := if dropRemoved && info.removed then alDel s.urrs r.urr
                 else alSet s.urrs r.urr { info with seqn := info.seqn + 1 }
    ({ s with urrs := urrs' }, some ie)

/-- the emission loop over a batch of reports, in order -/
def emitUsars (s : Sess) (rs : List Report) (extra : BitVec 32) (dropRemoved : Bool) : Sess × List UsarIE :=
  match rs with
  | [] => (s, [])
  | r :: rest =>
    ((emitUsars (emitOne s r extra dropRemoved).1 rest extra dropRemoved).1,
     (emitOne s r extra dropRemoved).2.toList ++ (emitUsars (emitOne s r extra dropRemoved).1 rest extra dropRemoved).2)

/-! ### LocalNode (node.go:612-690) -/

/-- `int(lSeid) - 1` as Go computes it: 64-bit two's complement -/
def slotIndex (x : Seid) : Int := (x - 1).toInt

/-- `LocalNode.Sess`: zero check, range check on the unsigned SEID, nil-slot check -/
def LNode.lookup (n : LNode) (x : Seid) : Option Sess :=
  if x == 0 then none
  else if x.toNat > n.sess.length then none      -- `lSeid > uint64(len(n.sess))` (after the `fix:` for C04)
  else (n.sess.getD (x.toNat - 1) none)

/-- `LocalNode.NewSess`: reuse the last freed id, else append -/
def LNode.newSess (n : LNode) (rnode : Nat) (rSeid : Seid) : LNode × Sess :=
  match n.free.getLast? with
  | some id =>
    let s : Sess := { rnode := rnode, localID := id, remoteID := rSeid }
    ({ sess := n.sess.set (id.toNat - 1) (some s), free := n.free.dropLast }, s)
  | none =>
    let id : Seid := BitVec.ofNat 64 (n.sess.length + 1)
    let s : Sess := { rnode := rnode, localID := id, remoteID := rSeid }
    ({ n with sess := n.sess ++ [some s] }, s)

def LNode.setSess (n : LNode) (s : Sess) : LNode :=
  { n with sess := n.sess.set (s.localID.toNat - 1) (some s) }

/-- `LocalNode.RemoteSess`: first live slot whose control-plane SEID and node address match
    (released slots are skipped — after the `fix:` for C05). -/
def matchRemote (nodes : List RNode) (rSeid : Seid) (addr : String) : Option Sess → Bool
  | some s => s.remoteID == rSeid && ((nodes.getD s.rnode default).addr == addr)
  | none => false

def LNode.remoteSess (n : LNode) (nodes : List RNode) (rSeid : Seid) (addr : String) : Option Sess :=
  (n.sess.find? (matchRemote nodes rSeid addr)).join

/-! ### the server -/

def State.nodeOf (st : State) (id : NodeId) : Option Nat := alGet st.rnodes id

def State.setSess (st : State) (s : Sess) : State := { st with lnode := st.lnode.setSess s }

def State.modNode (st : State) (h : Nat) (f : RNode → RNode) : State :=
  { st with nodes := st.nodes.modify h f }

/-- `LocalNode.DeleteSess` via `RemoteNode.DeleteSess`: membership in the node's set, close, nil the slot,
    push the id on the free list -/
def State.deleteSess (st : State) (h : Nat) (x : Seid) (env : Env) (c : Ctx) : State × Ctx × Sess × List Report :=
  let node := st.nodes.getD h default
  if x ∉ node.sess then (st, c, default, []) else
  let st1 := st.modNode h fun n => { n with sess := n.sess.filter (· != x) }
  match st1.lnode.lookup x with
  | none => (st1, c, default, [])
  | some s =>
    let (s', c', rs) := s.close c
    let ln := st1.lnode
    ({ st1 with lnode := { sess := ln.sess.set (x.toNat - 1) none, free := ln.free ++ [x] } }, c', s', rs)

/-- `RemoteNode.Reset` -/
def State.resetNode (st : State) (h : Nat) (env : Env) (c : Ctx) : State × Ctx :=
  let node := st.nodes.getD h default
  let order := arrange node.sess env.sessOrder
  let (st', c') := order.foldl (fun (acc : State × Ctx) x =>
    let (st1, c1, _, _) := acc.1.deleteSess h x env acc.2
    (st1, c1)) (st, c)
  (st'.modNode h fun n => { n with sess := [] }, c')

/-- sendRspTo: the response goes through the receive transaction of (source address, sequence) -/
def State.sendRsp (st : State) (addr : String) (m : Msg) (c : Ctx) : State × Ctx :=
  match alGet st.rx (addr, m.seq) with
  | none => (st, c)
  | some _ => ({ st with rx := alSet st.rx (addr, m.seq) { rsp := some m } }, c.emit (.send addr m))

/-- sendReqTo: the transaction is keyed by the sequence number that goes on the wire, i.e. the low 24 bits
    of the 32-bit counter (after the `fix:` for C09); the counter itself wraps at 2^32. -/
def State.sendReq (st : State) (addr : String) (m : Msg) (c : Ctx) : State × Ctx :=
  let w : BitVec 24 := st.txSeq.setWidth 24
  let m' := { m with seq := w }
  let tx : Tx := { to := addr, msg := m', reqSeid := m.seid.getD 0 }
  ({ st with tx := alSet st.tx (addr, w) tx, txSeq := st.txSeq + 1 }, c.emit (.send addr m'))

/-- abstract requests, after `message.Parse` -/
structure EstReq where
  nodeID : Option NodeId
  cpSeid : Option Seid
  far : List RuleIE := []
  qer : List RuleIE := []
  urr : List RuleIE := []
  bar : Option RuleIE := none
  pdr : List RuleIE := []
deriving Repr, Inhabited

structure ModReq where
  seid : Seid
  nodeID : Option NodeId := none
  cfar : List RuleIE := []
  cqer : List RuleIE := []
  curr : List RuleIE := []
  cbar : Option RuleIE := none
  cpdr : List RuleIE := []
  rfar : List RuleIE := []
  rqer : List RuleIE := []
  rurr : List RuleIE := []
  rbar : Option RuleIE := none
  rpdr : List RuleIE := []
  ufar : List RuleIE := []
  uqer : List RuleIE := []
  uurr : List RuleIE := []
  ubar : Option RuleIE := none
  updr : List RuleIE := []
  qurr : List RuleIE := []
deriving Repr, Inhabited

inductive Req
  | heartbeat
  | assoc (nodeID : Option NodeId)
  | est (r : EstReq)
  | mod (r : ModReq)
  | del (seid : Seid)
  | other                       -- a request type without handler (association update/release, PFD, node report, …)
deriving Repr, Inhabited

inductive RepItem
  | usar (r : Report)
  | dldr (pdr : Nat) (action : BitVec 16) (pkt : Bytes)
deriving Repr, Inhabited

inductive Event
  | request (from_ : String) (seq : BitVec 24) (r : Req)
  | srResponse (from_ : String) (seq : BitVec 24) (seid : Seid)   -- Session Report Response
  | otherResponse (from_ : String) (seq : BitVec 24)             -- any other response type
  | ignored                                                       -- undecodable, or neither request nor response
  | report (seid : Seid) (items : List RepItem)                  -- NotifySessReport
  | txTimeout (to : String) (seq : BitVec 24)
  | rxTimeout (from_ : String) (seq : BitVec 24)
deriving Repr, Inhabited

def causeAccepted : Nat := Gen.ie.CauseRequestAccepted
def causeNoContext : Nat := Gen.ie.CauseSessionContextNotFound

/-- the rule loops of handleSessionEstablishmentRequest, in the handler's order -/
def estStages (r : EstReq) : List Stage := [
  liftS (fun s ie c => s.createSimple .far ie c) r.far,
  liftS (fun s ie c => s.createSimple .qer ie c) r.qer,
  liftS (fun s ie c => s.createURR ie c) r.urr,
  liftS (fun s ie c => s.createSimple .bar ie c) (optList r.bar),
  liftS (fun s ie c => s.createPDR ie c) r.pdr ]

/-- handleSessionEstablishmentRequest -/
def handleEst (st : State) (addr : String) (seq : BitVec 24) (r : EstReq) (_env : Env) (c : Ctx) : State × Ctx :=
  match r.nodeID with
  | none => (st, c)
  | some nid =>
    match st.nodeOf nid with
    | none => (st, c)
    | some h =>
      match r.cpSeid with
      | none => (st, c)
      | some cp =>
        let (ln, s0) := st.lnode.newSess h cp
        let st1 := { st with lnode := ln }.modNode h fun n => { n with sess := setIns n.sess s0.localID }
        let (s5, c5, _) := runStages (estStages r) s0 c []
        let created := r.pdr.filterMap fun ie => ie.ueip.map fun ip => (ie.id.getD 0, ip)
        let rsp : Msg := { kind := .estRsp, seq := seq, seid := some s5.remoteID, cause := some causeAccepted,
                           nodeID := true, fseid := some s5.localID, created := created }
        (st1.setSess s5).sendRsp addr rsp c5

/-- `UpdateNodeID` (pfcp.go:248-254) -/
def State.updateNodeID (st : State) (h : Nat) (newId : NodeId) : State :=
  let old := (st.nodes.getD h default).id
  let st1 := { st with rnodes := alDel st.rnodes old }
  let st2 := st1.modNode h fun n => { n with id := newId }
  { st2 with rnodes := alSet st2.rnodes newId h }

/-- a Node ID in a Modification Request: a new SMF takes the session's node over (session.go:157-170) -/
def State.takeover (st : State) (nodeID : Option NodeId) (h : Nat) : State :=
  match nodeID with
  | some nid => st.updateNodeID h nid
  | none => st

@[simp] theorem State.takeover_lnode (st : State) (o : Option NodeId) (h : Nat) : (st.takeover o h).lnode = st.lnode := by
  cases o <;> rfl

/-- the rule loops of handleSessionModificationRequest, in the handler's order (session.go:172-301) -/
def modStages (r : ModReq) : List Stage := [
  liftS (fun s ie c => s.createSimple .far ie c) r.cfar,
  liftS (fun s ie c => s.createSimple .qer ie c) r.cqer,
  liftS (fun s ie c => s.createURR ie c) r.curr,
  liftS (fun s ie c => s.createSimple .bar ie c) (optList r.cbar),
  liftS (fun s ie c => s.createPDR ie c) r.cpdr,
  liftS (fun s ie c => s.removeSimple .far ie c) r.rfar,
  liftS (fun s ie c => s.removeSimple .qer ie c) r.rqer,
  liftR (fun s ie c => ((s.removeURR ie c).1, (s.removeURR ie c).2.1, ((s.removeURR ie c).2.2).getD [])) r.rurr,
  liftS (fun s ie c => s.removeSimple .bar ie c) (optList r.rbar),
  liftR (fun s ie c => s.removePDR ie c) r.rpdr,
  liftS (fun s ie c => s.updateSimple .far ie c) r.ufar,
  liftS (fun s ie c => s.updateSimple .qer ie c) r.uqer,
  liftR (fun s ie c => s.updateURR ie c) r.uurr,
  liftS (fun s ie c => s.updateSimple .bar ie c) (optList r.ubar),
  liftR (fun s ie c => s.updatePDR ie c) r.updr,
  liftR (fun s ie c => s.queryURR ie c) r.qurr ]

/-- handleSessionModificationRequest -/
def handleMod (st : State) (addr : String) (seq : BitVec 24) (r : ModReq) (env : Env) (c : Ctx) : State × Ctx :=
  match st.lnode.lookup r.seid with
  | none =>
    st.sendRsp addr { kind := .modRsp, seq := seq, seid := some 0, cause := some causeNoContext } c
  | some s0 =>
    let st0 := st.takeover r.nodeID s0.rnode
    let (s16, c16, u16) := runStages (modStages r) s0 c []
    let (s17, ies) := emitUsars s16 u16 0 true
    let rsp : Msg := { kind := .modRsp, seq := seq, seid := some s17.remoteID, cause := some causeAccepted, usars := ies }
    (st0.setSess s17).sendRsp addr rsp c16

/-- handleSessionDeletionRequest -/
def handleDel (st : State) (addr : String) (seq : BitVec 24) (x : Seid) (env : Env) (c : Ctx) : State × Ctx :=
  match st.lnode.lookup x with
  | none =>
    st.sendRsp addr { kind := .delRsp, seq := seq, seid := some 0, cause := some causeNoContext, rtype := some 2 } c
  | some s0 =>
    let (st1, c1, s1, rs) := st.deleteSess s0.rnode x env c
    let (_, ies) := emitUsars s1 rs usarTERMR true
    st1.sendRsp addr { kind := .delRsp, seq := seq, seid := some s0.remoteID, cause := some causeAccepted, usars := ies } c1

/-- handleAssociationSetupRequest -/
def handleAssoc (st : State) (addr : String) (seq : BitVec 24) (nodeID : Option NodeId) (env : Env) (c : Ctx) :
    State × Ctx :=
  match nodeID with
  | none => (st, c)
  | some nid =>
    let (st1, c1) : State × Ctx := match st.nodeOf nid with
      | some h =>
        let (st', c') := st.resetNode h env c
        ({ st' with rnodes := alDel st'.rnodes nid }, c')
      | none => (st, c)
    let h' := st1.nodes.length
    let newNode : RNode := { id := nid, addr := addr }
    let st2 : State := { st1 with nodes := st1.nodes ++ [newNode], rnodes := alSet st1.rnodes nid h' }
    st2.sendRsp addr { kind := .assocRsp, seq := seq, cause := some causeAccepted, nodeID := true, recov := true } c1

def handleReq (st : State) (addr : String) (seq : BitVec 24) (r : Req) (env : Env) (c : Ctx) : State × Ctx :=
  match r with
  | .heartbeat => st.sendRsp addr { kind := .hbRsp, seq := seq, recov := true } c
  | .assoc nid => handleAssoc st addr seq nid env c
  | .est e => handleEst st addr seq e env c
  | .mod m => handleMod st addr seq m env c
  | .del x => handleDel st addr seq x env c
  | .other => (st, c)

/-- `Sess.Push`: non-blocking send on the per-PDR channel of capacity `qlen` (full ⇒ the new packet is dropped) -/
def Sess.push (s : Sess) (qlen : Nat) (pdr : Nat) (pkt : Bytes) : Sess :=
  let cur := (alGet s.q pdr).getD []
  if cur.length < qlen then { s with q := alSet s.q pdr (cur ++ [pkt]) }
  else { s with q := alSet s.q pdr cur }

/-- `Sess.Pop` via `PfcpServer.PopBufPkt` -/
def State.popBufPkt (st : State) (x : Seid) (pdr : Nat) : State × Option Bytes :=
  match st.lnode.lookup x with
  | none => (st, none)
  | some s =>
    match alGet s.q pdr with
    | none => (st, none)
    | some [] => (st, none)
    | some (p :: rest) => (st.setSess { s with q := alSet s.q pdr rest }, some p)

/-- where `ServeReport` sends: `net.ResolveUDPAddr("udp4", "<node id>:8805")`. An IPv4 node id resolves to the
    address of the peer that owns it; IPv6 literals and FQDNs (no resolver) do not resolve as udp4: the report then goes
    to the address the node associated from, port 8805 (the `fix:` commit for C10). -/
def reportDest (n : RNode) : Option String :=
  match n.id with
  | .v4 peer => some peer
  | _ => some n.addr

def buffF : BitVec 16 := BitVec.ofNat 16 Gen.report.APPLY_ACT_BUFF
def nocpF : BitVec 16 := BitVec.ofNat 16 Gen.report.APPLY_ACT_NOCP

/-- `if r.Action&APPLY_ACT_BUFF != 0 && len(r.BufPkt) > 0 { sess.Push(r.PDRID, r.BufPkt) }` -/
def State.pushPkt (st : State) (x : Seid) (pdr : Nat) (act : BitVec 16) (pkt : Bytes) : State :=
  match st.lnode.lookup x with
  | some s => if (act &&& buffF != 0) && pkt.length > 0 then st.setSess (s.push st.cfg.qlen pdr pkt) else st
  | none => st

/-- the loop over `sr.Reports` in `ServeReport`; the third component is `none` after the early `return`
    taken for a downlink-data report without NOCP -/
def serveLoop (x : Seid) (dest : String) : List RepItem → State → Ctx → List Report → State × Ctx × Option (List Report)
  | [], st, c, us => (st, c, some us)
  | .usar r :: rest, st, c, us => serveLoop x dest rest st c (us ++ [r])
  | .dldr pdr act pkt :: rest, st, c, us =>
    let st1 := st.pushPkt x pdr act pkt
    if act &&& nocpF == 0 then (st1, c, none)
    else
      let (st2, c2) := match st1.lnode.lookup x with
        | some s => st1.sendReq dest { kind := .srReq, seq := 0, seid := some s.remoteID, rtype := some 1, dldr := some pdr } c
        | none => (st1, c)
      serveLoop x dest rest st2 c2 us

/-- `ServeReport` (report.go:15-58) -/
def serveReport (st : State) (x : Seid) (items : List RepItem) (c : Ctx) : State × Ctx :=
  match st.lnode.lookup x with
  | none => (st, c)
  | some s0 =>
    match reportDest (st.nodes.getD s0.rnode default) with
    | none => (st, c)
    | some dest =>
      match serveLoop x dest items st c [] with
      | (st1, c1, none) => (st1, c1)
      | (st1, c1, some us) =>
        if us.isEmpty then (st1, c1) else
        match st1.lnode.lookup x with
        | none => (st1, c1)
        | some s =>
          let (s', ies) := emitUsars s us 0 false
          (st1.setSess s').sendReq dest { kind := .srReq, seq := 0, seid := some s.remoteID, rtype := some 2, usars := ies } c1

/-- the loop body of `PfcpServer.main` for one event -/
def step (st : State) (e : Event) (env : Env) : State × List Out :=
  let c : Ctx := { pending := env.pending }
  let (st', c') : State × Ctx :=
    match e with
    | .ignored => (st, c)
    | .request addr seq r =>
      match alGet st.rx (addr, seq) with
      | some rx =>
        match rx.rsp with
        | some m => (st, c.emit (.send addr m))      -- retransmit the cached response bytes
        | none => (st, c)
      | none =>
        let st1 := { st with rx := alSet st.rx (addr, seq) {} }
        handleReq st1 addr seq r env c
    | .srResponse addr seq seid =>
      match alGet st.tx (addr, seq) with
      | none => (st, c)
      | some tx =>
        let st1 := { st with tx := alDel st.tx (addr, seq) }
        if seid == 0 then
          match st1.lnode.remoteSess st1.nodes tx.reqSeid addr with
          | none => (st1, c)
          | some s =>
            let (st2, c2, _, _) := st1.deleteSess s.rnode s.localID env c
            (st2, c2)
        else (st1, c)
    | .otherResponse addr seq =>
      match alGet st.tx (addr, seq) with
      | none => (st, c)
      | some _ => ({ st with tx := alDel st.tx (addr, seq) }, c)
    | .report x items => serveReport st x items c
    | .txTimeout addr seq =>
      match alGet st.tx (addr, seq) with
      | none => (st, c)
      | some tx =>
        if tx.count < st.cfg.maxRetrans then
          ({ st with tx := alSet st.tx (addr, seq) { tx with count := tx.count + 1 } }, c.emit (.send addr tx.msg))
        else ({ st with tx := alDel st.tx (addr, seq) }, c)
    | .rxTimeout addr seq => ({ st with rx := alDel st.rx (addr, seq) }, c)
  (st', c'.outs)

end UpfVerif.Core
