import UpfVerif.Wire.Netlink
import UpfVerif.Model.FlowDesc
import UpfVerif.Model.Flags
import UpfVerif.Gen.Consts
/-
M-Xlate: `internal/forwarder/gtp5g.go` Create*/Update* for PDR, FAR, QER, URR, BAR — the grouped IE (as the list of
its child IEs, in wire order, each already read by its go-pfcp accessor) to the generic-netlink requests handed to gtp5g.
Statement by statement after the `for _, i := range ies { switch i.Type {…} }` loops; the accumulating `attrs` slice
is the concatenation of what each child appends, the id variable is the last id child seen.
-/
namespace UpfVerif.Xlate
open UpfVerif.Netlink UpfVerif.FlowDesc UpfVerif.Flags
open UpfVerif.Gen

structure Req where
  cmd : Nat
  flags : Nat
  attrs : List Attr
deriving Inhabited

/-- `NLM_F_REQUEST|NLM_F_ACK|NLM_F_EXCL`, `…|NLM_F_REPLACE`, plain `NLM_F_REQUEST|NLM_F_ACK` -/
def flCreate : Nat := 0x205
def flUpdate : Nat := 0x105
def flPlain : Nat := 0x5

/-! ### PDR -/

inductive PdiChild
  | srcif (v : Nat)
  | fteid (teid : Nat) (ip : Bytes)
  | ueip (ip : Bytes)
  | sdf (fd : Str) (bid : Option Nat)
  | netinst
  | appid
deriving Inhabited

inductive PdrChild
  | pdrid (v : Nat)
  | prec (v : Nat)
  | ohr (v : Nat)
  | farid (v : Nat)
  | qerid (v : Nat)
  | urrid (v : Nat)
  | pdi (cs : List PdiChild)
deriving Inhabited

def ipBytes (l : List Nat) : Bytes := l.map (BitVec.ofNat 8)

/-- `convertSlice`: host-endian 32-bit words -/
def portBytes (ps : List (List Nat)) : Bytes := (portWords ps).flatMap le32

def dirCode (d : Str) : Nat := if d == kwIn then gtp5gnl.SDF_FILTER_IN else gtp5gnl.SDF_FILTER_OUT

/-- `newFlowDesc` after a successful `ParseFlowDesc` -/
def flowDescAttrs (f : FlowDesc) (swap : Bool) : List Attr :=
  let src := if swap then f.dst else f.src
  let dst := if swap then f.src else f.dst
  let sp := if swap then f.dports else f.sports
  let dp := if swap then f.sports else f.dports
  [ u8 gtp5gnl.FLOW_DESCRIPTION_ACTION gtp5gnl.SDF_FILTER_PERMIT,
    u8 gtp5gnl.FLOW_DESCRIPTION_DIRECTION (dirCode f.dir),
    u8 gtp5gnl.FLOW_DESCRIPTION_PROTOCOL f.proto,
    bytes gtp5gnl.FLOW_DESCRIPTION_SRC_IPV4 (ipBytes src.ip),
    bytes gtp5gnl.FLOW_DESCRIPTION_SRC_MASK (ipBytes src.mask),
    bytes gtp5gnl.FLOW_DESCRIPTION_DEST_IPV4 (ipBytes dst.ip),
    bytes gtp5gnl.FLOW_DESCRIPTION_DEST_MASK (ipBytes dst.mask),
    bytes gtp5gnl.FLOW_DESCRIPTION_SRC_PORT (portBytes sp),
    bytes gtp5gnl.FLOW_DESCRIPTION_DEST_PORT (portBytes dp) ]

def bidAttrs : Option Nat → List Attr
  | some b => [u32 gtp5gnl.SDF_FILTER_SDF_FILTER_ID b]
  | none => []

/-- `newSdfFilter` (flow description and filter id; TTC/SPI/FL are constants in the source and not generated) -/
def sdfAttrs (fd : Str) (bid : Option Nat) (srcIf : Nat) : Option (List Attr) :=
  match parseFlowDesc fd with
  | none => none
  | some f => some (.nest gtp5gnl.SDF_FILTER_FLOW_DESCRIPTION (flowDescAttrs f (srcIf == ie.SrcInterfaceAccess)) :: bidAttrs bid)

/-- `srcIf`: the last Source Interface child (0 when none) -/
def pdiSrcIf : List PdiChild → Nat → Nat
  | [], cur => cur
  | .srcif v :: cs, _ => pdiSrcIf cs v
  | _ :: cs, cur => pdiSrcIf cs cur

def pdiDirect : PdiChild → List Attr
  | .srcif v => [u8 gtp5gnl.PDI_SRC_INTF v]
  | .fteid teid ip => [.nest gtp5gnl.PDI_F_TEID [u32 gtp5gnl.F_TEID_I_TEID teid, bytes gtp5gnl.F_TEID_GTPU_ADDR_IPV4 ip]]
  | .ueip ip => [bytes gtp5gnl.PDI_UE_ADDR_IPV4 ip]
  | _ => []

def pdiSdf (srcIf : Nat) : PdiChild → List Attr
  | .sdf fd bid => match sdfAttrs fd bid srcIf with
    | some a => [.nest gtp5gnl.PDI_SDF_FILTER a]
    | none => []
  | _ => []

/-- `newPdi`: the direct children in order, then the SDF filters, swapped by the final source interface -/
def pdiAttrs (cs : List PdiChild) : List Attr :=
  cs.flatMap pdiDirect ++ cs.flatMap (pdiSdf (pdiSrcIf cs 0))

def pdrChildAttrs : PdrChild → List Attr
  | .pdrid _ => []
  | .prec v => [u32 gtp5gnl.PDR_PRECEDENCE v]
  | .ohr v => [u8 gtp5gnl.PDR_OUTER_HEADER_REMOVAL v]
  | .farid v => [u32 gtp5gnl.PDR_FAR_ID v]
  | .qerid v => [u32 gtp5gnl.PDR_QER_ID v]
  | .urrid v => [u32 gtp5gnl.PDR_URR_ID v]
  | .pdi cs => if (pdiAttrs cs).isEmpty then [] else [.nest gtp5gnl.PDR_PDI (pdiAttrs cs)]

def pdrId : List PdrChild → Nat → Nat
  | [], cur => cur
  | .pdrid v :: cs, _ => pdrId cs v
  | _ :: cs, cur => pdrId cs cur

def sockPath : Bytes := [0x2f#8]   -- gtp5gnl.PdrAddrForNetlink = "/"

def oidAttrs (link : Nat) (idAttr : Attr) (seidTyp seid : Nat) : List Attr :=
  [u32 gtp5gnl.LINK link, idAttr, u64 seidTyp seid]

def createPDR (link seid : Nat) (cs : List PdrChild) : Req :=
  { cmd := gtp5gnl.CMD_ADD_PDR, flags := flCreate,
    attrs := oidAttrs link (u16 gtp5gnl.PDR_ID (pdrId cs 0)) gtp5gnl.PDR_SEID seid ++ cs.flatMap pdrChildAttrs
             ++ [str gtp5gnl.PDR_UNIX_SOCKET_PATH sockPath] }

def updatePDR (link seid : Nat) (cs : List PdrChild) : Req :=
  { cmd := gtp5gnl.CMD_ADD_PDR, flags := flUpdate,
    attrs := oidAttrs link (u16 gtp5gnl.PDR_ID (pdrId cs 0)) gtp5gnl.PDR_SEID seid ++ cs.flatMap pdrChildAttrs }

/-! ### FAR -/

inductive FpChild
  | dstif (v : Nat)
  | netinst
  | ohc (desc teid : Nat) (ip : Bytes) (port : Nat)
  | ohctag (raw : Bytes)   -- an Outer Header Creation with a C-TAG / S-TAG field: go-pfcp's accessor does not decode it; the IE is skipped
  | fpol (s : Bytes)
  | smreq (v : Nat)
deriving Inhabited

inductive FarChild
  | farid (v : Nat)
  | aa (b : Bytes)
  | fp (cs : List FpChild)
  | barid (v : Nat)
deriving Inhabited

/-- go-pfcp `OuterHeaderCreationFields.HasTEID/HasIPv4/HasPortNumber` on the description's first octet -/
def ohcHasTEID (desc : Nat) : Bool := desc / 0x100 % 2 == 1 || desc / 0x200 % 2 == 1
def ohcHasIPv4 (desc : Nat) : Bool := desc / 0x100 % 2 == 1 || desc / 0x400 % 2 == 1 || desc / 0x1000 % 2 == 1
def ohcHasPort (desc : Nat) : Bool := desc / 0x400 % 2 == 1 || desc / 0x800 % 2 == 1

def ohcAttrs (desc teid : Nat) (ip : Bytes) (port : Nat) : List Attr :=
  [u16 gtp5gnl.OUTER_HEADER_CREATION_DESCRIPTION desc]
  ++ (if ohcHasTEID desc then
        [u32 gtp5gnl.OUTER_HEADER_CREATION_O_TEID teid, u16 gtp5gnl.OUTER_HEADER_CREATION_PORT factory.UpfGtpDefaultPort]
      else [u16 gtp5gnl.OUTER_HEADER_CREATION_PORT (if ohcHasPort desc then port else 0)])
  ++ (if ohcHasIPv4 desc then [bytes gtp5gnl.OUTER_HEADER_CREATION_PEER_ADDR_IPV4 ip] else [])

def fpChildAttrs : FpChild → List Attr
  | .ohc desc teid ip port => [.nest gtp5gnl.FORWARDING_PARAMETER_OUTER_HEADER_CREATION (ohcAttrs desc teid ip port)]
  | .fpol s => [str gtp5gnl.FORWARDING_PARAMETER_FORWARDING_POLICY s]
  | .smreq v => [u8 gtp5gnl.FORWARDING_PARAMETER_PFCPSM_REQ_FLAGS v]
  | _ => []

def fpAttrs (cs : List FpChild) : List Attr := cs.flatMap fpChildAttrs

def farChildAttrs : FarChild → List Attr
  | .farid _ => []
  | .aa b => match applyUnmarshal b with
    | some f => [u16 gtp5gnl.FAR_APPLY_ACTION f.toNat]
    | none => []
  | .fp cs => if (fpAttrs cs).isEmpty then [] else [.nest gtp5gnl.FAR_FORWARDING_PARAMETER (fpAttrs cs)]
  | .barid v => [u8 gtp5gnl.FAR_BAR_ID v]

def farId : List FarChild → Nat → Nat
  | [], cur => cur
  | .farid v :: cs, _ => farId cs v
  | _ :: cs, cur => farId cs cur

/-- does the loop return an error (an Apply Action IE that does not unmarshal)? -/
def farErr : List FarChild → Bool
  | [] => false
  | .aa b :: cs => (applyUnmarshal b).isNone || farErr cs
  | _ :: cs => farErr cs

def getFAR (link seid id : Nat) : Req :=
  { cmd := gtp5gnl.CMD_GET_FAR, flags := flPlain, attrs := oidAttrs link (u32 gtp5gnl.FAR_ID id) gtp5gnl.FAR_SEID seid }

/-- the Apply Action words of the IE, in order -/
def farActs : List FarChild → List (BitVec 16)
  | [] => []
  | .aa b :: cs => match applyUnmarshal b with
    | some w => w :: farActs cs
    | none => farActs cs
  | _ :: cs => farActs cs

/-- `UpdateFAR`: after the loop, each Apply Action calls `applyAction(lSeid, farid, …)` — with the FAR id the IE
    names — whose first act is a GET_FAR -/
def farGets (link seid : Nat) (cs : List FarChild) : List Req :=
  (farActs cs).map fun _ => getFAR link seid (farId cs 0)

def farReq (link seid : Nat) (fl : Nat) (cs : List FarChild) : Req :=
  { cmd := gtp5gnl.CMD_ADD_FAR, flags := fl,
    attrs := oidAttrs link (u32 gtp5gnl.FAR_ID (farId cs 0)) gtp5gnl.FAR_SEID seid ++ cs.flatMap farChildAttrs }

/-- result of a driver call: did it return nil, and the requests it sent -/
abbrev Res := Bool × List Req

def createFAR (link seid : Nat) (cs : List FarChild) : Res :=
  if farErr cs then (false, []) else (true, [farReq link seid flCreate cs])

def updateFAR (link seid : Nat) (cs : List FarChild) : Res :=
  if farErr cs then (false, []) else (true, farGets link seid cs ++ [farReq link seid flUpdate cs])

/-! ### QER -/

inductive QerChild
  | qerid (v : Nat)
  | corr (v : Nat)
  | gate (v : Nat)
  | mbr (ul dl : Nat)
  | gbr (ul dl : Nat)
  | qfi (v : Nat)
  | rqi (v : Nat)
  | ppi (v : Nat)
deriving Inhabited

/-- the 40-bit rate split: `AttrU32(x >> 8)`, `AttrU8(x)` -/
def rateAttrs (tUlH tUlL tDlH tDlL ul dl : Nat) : List Attr :=
  [u32 tUlH (ul / 256), u8 tUlL ul, u32 tDlH (dl / 256), u8 tDlL dl]

def qerChildAttrs : QerChild → List Attr
  | .qerid _ => []
  | .corr v => [u32 gtp5gnl.QER_CORR_ID v]
  | .gate v => [u8 gtp5gnl.QER_GATE v]
  | .mbr ul dl => [.nest gtp5gnl.QER_MBR (rateAttrs gtp5gnl.QER_MBR_UL_HIGH32 gtp5gnl.QER_MBR_UL_LOW8 gtp5gnl.QER_MBR_DL_HIGH32 gtp5gnl.QER_MBR_DL_LOW8 ul dl)]
  | .gbr ul dl => [.nest gtp5gnl.QER_GBR (rateAttrs gtp5gnl.QER_GBR_UL_HIGH32 gtp5gnl.QER_GBR_UL_LOW8 gtp5gnl.QER_GBR_DL_HIGH32 gtp5gnl.QER_GBR_DL_LOW8 ul dl)]
  | .qfi v => [u8 gtp5gnl.QER_QFI v]
  | .rqi v => [u8 gtp5gnl.QER_RQI v]
  | .ppi v => [u8 gtp5gnl.QER_PPI (v % 8)]     -- go-pfcp `PagingPolicyIndicator()` masks 0x07

def qerId : List QerChild → Nat → Nat
  | [], cur => cur
  | .qerid v :: cs, _ => qerId cs v
  | _ :: cs, cur => qerId cs cur

def qerReq (link seid fl : Nat) (cs : List QerChild) : Req :=
  { cmd := gtp5gnl.CMD_ADD_QER, flags := fl,
    attrs := oidAttrs link (u32 gtp5gnl.QER_ID (qerId cs 0)) gtp5gnl.QER_SEID seid ++ cs.flatMap qerChildAttrs }

/-! ### URR -/

inductive UrrChild
  | urrid (v : Nat)
  | mm (v : Nat)
  | rt (b : Bytes)
  | mp (sec : Nat)
  | mi (v : Nat)
  | vth (flags tv uv dv : Nat)
  | vqu (flags tv uv dv : Nat)
deriving Inhabited

def volAttrs (tF tT tU tD flags tv uv dv : Nat) : List Attr :=
  [u8 tF flags] ++ (if flags % 2 == 1 then [u64 tT tv] else [])
  ++ (if flags / 2 % 2 == 1 then [u64 tU uv] else []) ++ (if flags / 4 % 2 == 1 then [u64 tD dv] else [])

/-- `time.Duration` of a Measurement Period of `sec` seconds, in nanoseconds -/
def durNs (sec : Nat) : Nat := sec * 1000000000

/- a Volume Threshold / Quota IE that names no volume (flags & 7 = 0) is one octet long; go-pfcp's accessor rejects
   it (`l < 2`) and the driver then skips the child (`break`). Such an IE is not well-formed (TS 29.244 8.2.13). -/
def urrChildAttrs : UrrChild → List Attr
  | .urrid _ => []
  | .mm v => [u8 gtp5gnl.URR_MEASUREMENT_METHOD v]
  | .rt b => match rptUnmarshal b with
    | some f => [u32 gtp5gnl.URR_REPORTING_TRIGGER f.toNat]
    | none => []
  | .mp sec => [u32 gtp5gnl.URR_MEASUREMENT_PERIOD (durNs sec)]   -- `nl.AttrU32(time.Duration)`: the low 32 bits of the nanoseconds
  | .mi v => [u64 gtp5gnl.URR_MEASUREMENT_INFO v]
  | .vth f tv uv dv => if f % 8 == 0 then [] else [.nest gtp5gnl.URR_VOLUME_THRESHOLD (volAttrs gtp5gnl.URR_VOLUME_THRESHOLD_FLAG gtp5gnl.URR_VOLUME_THRESHOLD_TOVOL gtp5gnl.URR_VOLUME_THRESHOLD_UVOL gtp5gnl.URR_VOLUME_THRESHOLD_DVOL f tv uv dv)]
  | .vqu f tv uv dv => if f % 8 == 0 then [] else [.nest gtp5gnl.URR_VOLUME_QUOTA (volAttrs gtp5gnl.URR_VOLUME_QUOTA_FLAG gtp5gnl.URR_VOLUME_QUOTA_TOVOL gtp5gnl.URR_VOLUME_QUOTA_UVOL gtp5gnl.URR_VOLUME_QUOTA_DVOL f tv uv dv)]

def urrId : List UrrChild → Nat → Nat
  | [], cur => cur
  | .urrid v :: cs, _ => urrId cs v
  | _ :: cs, cur => urrId cs cur

/-- last Reporting Triggers word that unmarshalled (0 when none) -/
def urrTrig : List UrrChild → BitVec 32 → BitVec 32
  | [], cur => cur
  | .rt b :: cs, cur => urrTrig cs ((rptUnmarshal b).getD cur)
  | _ :: cs, cur => urrTrig cs cur

/-- last Measurement Period (seconds; 0 when none) -/
def urrPeriod : List UrrChild → Nat → Nat
  | [], cur => cur
  | .mp s :: cs, _ => urrPeriod cs s
  | _ :: cs, cur => urrPeriod cs cur

/-- error inside the loop: a trigger IE below two octets; on Create also a non-positive period -/
def urrLoopErr (create : Bool) : List UrrChild → Bool
  | [] => false
  | .rt b :: cs => (rptUnmarshal b).isNone || urrLoopErr create cs
  | .mp s :: cs => (create && s == 0) || urrLoopErr create cs
  | _ :: cs => urrLoopErr create cs

def urrReq (link seid fl : Nat) (cs : List UrrChild) : Req :=
  { cmd := gtp5gnl.CMD_ADD_URR, flags := fl,
    attrs := oidAttrs link (u32 gtp5gnl.URR_ID (urrId cs 0)) gtp5gnl.URR_SEID seid ++ cs.flatMap urrChildAttrs }

def isPerio (cs : List UrrChild) : Bool := test (urrTrig cs 0#32) report.RPT_TRIG_PERIO

/-- `CreateURR`: result, requests, and the periodic registration `(seid, urrid, seconds)` it makes -/
def createURR (link seid : Nat) (cs : List UrrChild) : Res × Option (Nat × Nat × Nat) :=
  if urrLoopErr true cs then ((false, []), none)
  else if isPerio cs then
    if urrPeriod cs 0 == 0 then ((false, []), none)
    else ((true, [urrReq link seid flCreate cs]), some (seid, urrId cs 0, urrPeriod cs 0))
  else ((true, [urrReq link seid flCreate cs]), none)

/-- `UpdateURR`: no registration change (the TODO in the source) -/
def updateURR (link seid : Nat) (cs : List UrrChild) : Res × Option (Nat × Nat × Nat) :=
  if urrLoopErr false cs then ((false, []), none) else ((true, [urrReq link seid flUpdate cs]), none)

/-! ### BAR -/

inductive BarChild
  | barid (v : Nat)
  | ddnd (v : Nat)       -- the IE's octet: delay in units of 50 ms
  | sbpc (v : Nat)
deriving Inhabited

/-- the value handed to `nl.AttrU8` for a Downlink Data Notification Delay of `v` × 50 ms: `v / (50 * time.Millisecond)`,
    the IE's octet (before the repair it was the low byte of the nanoseconds, `v * 50000000`) -/
def ddndAttrVal (v : Nat) : Nat := v * 50000000 / 50000000

def barChildAttrs : BarChild → List Attr
  | .barid _ => []
  | .ddnd v => [u8 gtp5gnl.BAR_DOWNLINK_DATA_NOTIFICATION_DELAY (ddndAttrVal v)]
  | .sbpc v => [u16 gtp5gnl.BAR_BUFFERING_PACKETS_COUNT v]

def barId : List BarChild → Nat → Nat
  | [], cur => cur
  | .barid v :: cs, _ => barId cs v
  | _ :: cs, cur => barId cs cur

def barReq (link seid fl : Nat) (cs : List BarChild) : Req :=
  { cmd := gtp5gnl.CMD_ADD_BAR, flags := fl,
    attrs := oidAttrs link (u8 gtp5gnl.BAR_ID (barId cs 0)) gtp5gnl.BAR_SEID seid ++ cs.flatMap barChildAttrs }

end UpfVerif.Xlate
