import UpfVerif.Basic
/-
M-Perio: `internal/forwarder/perio/server.go` — the periodic-report server as a pure machine over the events its single
goroutine serialises (ADD, DEL, TIMEOUT, CLOSE), and `queryMultiURR`'s batching (`gtp5g.go`).

State abstraction (tied to the code by the S-perio stream): a period group `period ↦ {seid ↦ set of urr}` is kept as the
flat set of pairs `(seid, urr)`; "the seid entry is deleted when its set empties, the group and its ticker when its map
empties" is then "the group is deleted when its pair set empties".  A group exists iff its ticker goroutine runs
(`newTicker` at creation, `stopTicker` at deletion).  Go's map iteration order is invisible: queries and notifications
are compared as sets (sorted) — except in DEL, which stops at the first group (in iteration order) holding the pair; the
model takes list order, which coincides with every order under the property's hypothesis (a URR is registered at most once
at a time).
-/
namespace UpfVerif.Perio

structure Group where
  period : Nat
  mem : List (Nat × Nat)          -- (seid, urr)
deriving DecidableEq, Repr, Inhabited

structure St where
  groups : List Group := []
  closed : Bool := false
deriving DecidableEq, Repr, Inhabited

inductive Ev
  | add (seid urr period : Nat)
  | del (seid urr : Nat)
  | tick (period : Nat)
  | close
deriving DecidableEq, Repr, Inhabited

/-- ADD: join the group of that period (created, with its ticker, when absent); idempotent -/
def addG : List Group → Nat → Nat → Nat → List Group
  | [], s, u, p => [{ period := p, mem := [(s, u)] }]
  | g :: gs, s, u, p =>
    if g.period = p then
      (if (s, u) ∈ g.mem then g else { g with mem := g.mem ++ [(s, u)] }) :: gs
    else g :: addG gs s u p

/-- DEL: the first group holding the pair loses it; an emptied group is deleted (ticker stopped) -/
def delG : List Group → Nat → Nat → List Group
  | [], _, _ => []
  | g :: gs, s, u =>
    if (s, u) ∈ g.mem then
      let m := g.mem.erase (s, u)
      if m.isEmpty then gs else { g with mem := m } :: gs
    else g :: delG gs s u

/-- TIMEOUT: the pairs to query, `none` when there is no group of that period (stale tick) -/
def queryG : List Group → Nat → Option (List (Nat × Nat))
  | [], _ => none
  | g :: gs, p => if g.period = p then some g.mem else queryG gs p

/-- what one event does to the state; a closed server has left its loop (events are no longer read) -/
def step (st : St) : Ev → St
  | .add s u p => if st.closed then st else { st with groups := addG st.groups s u p }
  | .del s u => if st.closed then st else { st with groups := delG st.groups s u }
  | .tick _ => st
  | .close => { groups := [], closed := true }

/-- the query a TIMEOUT makes -/
def query (st : St) (p : Nat) : Option (List (Nat × Nat)) := if st.closed then none else queryG st.groups p

def run (evs : List Ev) : St := evs.foldl step {}

/-- number of ticker goroutines -/
def tickers (st : St) : Nat := st.groups.length

/-! ### `queryMultiURR`: batches of at most `n` object ids per GET_MULTI_REPORTS request -/

/-- the loop: append to the current batch; when it reaches `n`, send it and start over; a non-empty rest is sent last -/
def batchesAux (n : Nat) : List (Nat × Nat) → List (Nat × Nat) → List (List (Nat × Nat))
  | [], cur => if cur.isEmpty then [] else [cur]
  | x :: rest, cur =>
    if (cur ++ [x]).length ≥ n then (cur ++ [x]) :: batchesAux n rest []
    else batchesAux n rest (cur ++ [x])

def batches (n : Nat) (l : List (Nat × Nat)) : List (List (Nat × Nat)) := batchesAux n l []

/-- the notifications of one tick: one per session of the answer, each report flagged PERIO (`flags |= USAR_TRIG_PERIO`) -/
def notify (perioBit : Nat) (answer : List (Nat × List (Nat × Nat))) : List (Nat × List (Nat × Nat)) :=
  answer.map fun (seid, rs) => (seid, rs.map fun (urr, flags) => (urr, flags ||| perioBit))

end UpfVerif.Perio
