import UpfVerif.Basic
/-
M-Wire / GTP-U: model of `internal/gtpv1/msg.go` (Message.Len, Message.Encode,
PDUSessionContainer.Encode) and of the message assembled by `Gtp5g.WritePacket`
(`internal/forwarder/gtp5g.go:1650-1681`).

Go writes into a zeroed buffer of exactly `Len()` bytes by index; the model builds
the same bytes by concatenation (bytes skipped by the alignment step stay zero).
-/
namespace UpfVerif.Gtpu

/-- `gtpv1.PDUSessionContainer`. -/
structure PSC where
  pduType : Byte
  qfi     : Byte
deriving Repr, DecidableEq

/-- `gtpv1.Message` with the only `Encoder` the code base has. -/
structure Msg where
  flags   : Byte
  type    : Byte
  teid    : BitVec 32
  seq     : BitVec 16
  npdu    : Byte
  exts    : List PSC
  payload : Bytes
deriving Repr, DecidableEq

def be16 (x : BitVec 16) : Bytes := [(x >>> 8).setWidth 8, x.setWidth 8]
def be32 (x : BitVec 32) : Bytes :=
  [(x >>> 24).setWidth 8, (x >>> 16).setWidth 8, (x >>> 8).setWidth 8, x.setWidth 8]

def hasSeq (flags : Byte) : Bool := flags &&& 0x2#8 != 0#8
def hasNpdu (flags : Byte) : Bool := flags &&& 0x1#8 != 0#8

/-- position of the first extension-header / terminator octet:
    `pos = ((pos + 4) &^ 0x3) - 1` after the optional fields. -/
def optLen (flags : Byte) : Nat :=
  8 + (if hasSeq flags then 2 else 0) + (if hasNpdu flags then 1 else 0)
def alignPos (l : Nat) : Nat := ((l + 4) / 4) * 4 - 1

/-- `PDUSessionContainer.Encode` (`b[3] = QoSFlowID & 0x3f`: six-bit QFI, TS 38.415 §5.5.3.3). -/
def encPSC (e : PSC) : Bytes :=
  [0x85#8, 1#8, e.pduType <<< 4, e.qfi &&& 0x3f#8]

/-- `Message.Len`. -/
def msgLen (m : Msg) : Nat :=
  alignPos (optLen m.flags) + 4 * m.exts.length + 1 + m.payload.length

/-- `Message.Encode` into a fresh zeroed buffer of `msgLen m` bytes. -/
def encode (m : Msg) : Bytes :=
  let l : BitVec 16 := BitVec.ofNat 16 (msgLen m - 8)
  let fixed := [m.flags, m.type] ++ be16 l ++ be32 m.teid
  let opt := (if hasSeq m.flags then be16 m.seq else []) ++
             (if hasNpdu m.flags then [m.npdu] else [])
  let pre := fixed ++ opt
  pre ++ List.replicate (alignPos (optLen m.flags) - pre.length) 0#8
      ++ (m.exts.map encPSC).flatten ++ [0#8] ++ m.payload

/-- the message `Gtp5g.WritePacket` assembles: flags 0x34, type 255, optional container
    with PDU type 0 and the QER's QFI. -/
def writePacketMsg (teid : BitVec 32) (qfi : Option Byte) (pkt : Bytes) : Msg :=
  { flags := 0x34#8, type := 255#8, teid := teid, seq := 0, npdu := 0,
    exts := match qfi with
      | none => []
      | some q => [{ pduType := 0#8, qfi := q }],
    payload := pkt }

end UpfVerif.Gtpu
