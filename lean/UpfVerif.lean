-- root of the library: models, specifications, property theorems
import UpfVerif.Basic
import UpfVerif.Model.Gtpu
import UpfVerif.Spec.GtpuRef
import UpfVerif.Props.C14
