-- root of the library: every property module (and through them the models, specifications and lemmas), so that a plain
-- `lake build` re-checks all theorems
import UpfVerif.Basic
import UpfVerif.Props.C01
import UpfVerif.Props.C02
import UpfVerif.Props.C03
import UpfVerif.Props.C04
import UpfVerif.Props.C05
import UpfVerif.Props.C06
import UpfVerif.Props.C07
import UpfVerif.Props.C08
import UpfVerif.Props.C09
import UpfVerif.Props.C10
import UpfVerif.Props.C11
import UpfVerif.Props.C12
import UpfVerif.Props.C13
import UpfVerif.Props.C14
import UpfVerif.Props.C15
import UpfVerif.Props.C16
import UpfVerif.Props.C17
import UpfVerif.Props.C18
import UpfVerif.Props.C19
import UpfVerif.Props.C20
