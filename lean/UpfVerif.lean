-- root of the library: models, specifications, property theorems
import UpfVerif.Basic
import UpfVerif.Model.Gtpu
import UpfVerif.Spec.GtpuRef
import UpfVerif.Props.C14
import UpfVerif.Gen.Consts
import UpfVerif.Gen.ConfigTags
import UpfVerif.Gen.Conc
import UpfVerif.Model.Flags
import UpfVerif.Spec.TS29244Bits
import UpfVerif.Props.C19
